#!/bin/bash
# MANIFEST.setup_cmd: builds libutap (from /repo's working tree) and the simulator in both variants, then proves the
# harness itself: seam self-test (every transport and chunking yields the same document, the seams are really used) and
# the determinism test (every run seed executed twice in fresh processes, at 1 and at 8 workers, event hashes diffed).
# Offline; needs g++, flex, bison, libxml2, python3 only.
set -euo pipefail
V="$(cd "$(dirname "$0")" && pwd)"
cd "$V"
BIN="$(./build.sh | tail -1)"
echo "built: $BIN"
"$BIN/utapsim.plain" run --profile selftest --seed 11 --runs 64 --workers 16 --replay-dir "$V/replays" | tail -1 | cut -c1-300
"$BIN/utapsim.asan" run --profile selftest --seed 12 --runs 16 --workers 16 --replay-dir "$V/replays" | tail -1 | cut -c1-300
rc=0
for p in history storm mirror twin blast writer; do
    "$BIN/utapsim.plain" determinism --profile $p --seed 5 --runs "${VERIF_DETERMINISM_SEEDS:-150}" --workers 8 | tail -1 || rc=2
done
"$BIN/utapsim.asan" determinism --profile history --seed 6 --runs 40 --workers 8 | tail -1 || rc=2
# the families that add seams or fault kinds of their own
for pf in storm:envfault:60 history:sweep:12 history:clockreal:12 writer:iofault:60 writer:realfile:60 writer:branchpoints:40 mirror:comment-in-text:40; do
    IFS=: read -r p f n <<< "$pf"
    "$BIN/utapsim.plain" determinism --profile "$p" --family "$f" --seed 7 --runs "$n" --workers 8 | tail -1 || rc=2
done
exit $rc
