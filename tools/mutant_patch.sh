#!/bin/bash
# mutant_patch.sh <file> <line> <replacement text> <out.diff>: a one-line mutant of /repo HEAD as a patch (scratch worktree /tmp/wt_sens)
set -e
wt=/tmp/wt_sens
[ -d $wt ] || git -C /repo worktree add -q --detach $wt HEAD
git -C $wt checkout -q --detach "$(git -C /repo rev-parse HEAD)"
python3 - "$wt/$1" "$2" "$3" <<'P'
import sys
p,l,t=sys.argv[1],int(sys.argv[2]),sys.argv[3]
s=open(p).read().split("\n"); ind=len(s[l-1])-len(s[l-1].lstrip()); s[l-1]=" "*ind+t; open(p,"w").write("\n".join(s))
P
git -C $wt diff > "$4"; git -C $wt checkout -q -- .
