#!/bin/bash
# sensitivity.sh [name-pattern]: for every mutation under /verif/sensitivity (or /verif/seeded/*/patch.diff with -s), in a scratch
# worktree: apply, build with the repository's own CMake, run its test suite (must pass), then run the quick checks of
# the properties it is expected to break. Appends one line per (mutation, property) to /verif/sensitivity/results.txt.
V="$(cd "$(dirname "$0")/.." && pwd)"
pat="${1:-}"
res="$V/sensitivity/results.txt"
for d in "$V"/sensitivity/*${pat}*.diff; do
    name="$(basename "$d" .diff)"
    props="$(python3 -c "import json,sys; print(' '.join(next(m['expected_to_break'] for m in json.load(open('$V/sensitivity/index.json')) if m['name']=='$name')))")"
    wt="$(mktemp -d /tmp/vs_XXXXXX)"; rmdir "$wt"
    git -C /repo worktree add -q --detach "$wt" HEAD || continue
    if ! git -C "$wt" apply "$d"; then echo "$name PATCH-DOES-NOT-APPLY" >> "$res"; git -C /repo worktree remove --force "$wt"; continue; fi
    tests="skipped"
    if [ "${SKIP_CTEST:-0}" != 1 ]; then
        if cmake -G Ninja -S "$wt" -B "$wt/_build" -DCMAKE_BUILD_TYPE=RelWithDebInfo -DUTAP_WITH_TESTS=ON -DLIBXML2_INCLUDE_DIR=/usr/include/libxml2 -DLIBXML2_LIBRARY=/usr/lib/x86_64-linux-gnu/libxml2.so >/dev/null 2>&1 && cmake --build "$wt/_build" >/dev/null 2>&1; then
            if ctest --test-dir "$wt/_build" -j8 --timeout 900 >/dev/null 2>&1; then tests="pass"; else tests="FAIL"; fi
        else tests="BUILD-FAIL"; fi
        rm -rf "$wt/_build"
    fi
    for pid in $props; do
        out="$(VERIF_REPO="$wt" VERIF_EVIDENCE_DIR="$wt.out/ev" VERIF_REPLAY_DIR="$wt.out/rp" VERIF_BUDGET_SCALE="${SCALE:-1}" "$V/check" "$pid" quick 2>&1)"; rc=$?
        echo "$name tests=$tests $pid rc=$rc violations=$(echo "$out" | grep -c '^VIOLATION') :: $(echo "$out" | grep -A2 '^VIOLATION' | grep -v '^VIOLATION\|^--' | head -2 | tr '\n' ' ' | cut -c1-300)" >> "$res"
    done
    git -C /repo worktree remove --force "$wt"; rm -rf "$wt.out"
done
