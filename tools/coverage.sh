#!/bin/bash
# coverage.sh [runs-per-profile]: reach measurement. Builds libutap with gcov instrumentation (scratch dir under /tmp, removed at
# the end), runs every profile/family for the given number of runs and prints line coverage per libutap source file plus the
# never-executed functions of the files the properties anchor in. Not a check; a tool to find workload blind spots.
set -euo pipefail
V="$(cd "$(dirname "$0")/.." && pwd)"
REPO="${VERIF_REPO:-/repo}"
N="${1:-300}"
W="$(mktemp -d /tmp/vcov_XXXXXX)"
trap 'rm -rf "$W"' EXIT
mkdir -p "$W/gen/include" "$W/obj"
flex --outfile="$W/gen/lexer.cc" -Putap_ "$REPO/src/lexer.l"
bison -putap_ -bparser "$REPO/src/parser.y" --output="$W/gen/parser.cpp" --defines="$W/gen/include/parser.hpp" 2>/dev/null
XC="$(/usr/bin/xml2-config --cflags)"; XL="$(/usr/bin/xml2-config --libs)"
INC="-I$REPO/include -I$REPO/src -I$W/gen/include -I$W/gen $XC"
F="-std=c++17 -O0 -g0 -DNDEBUG --coverage -w"
( for f in "$REPO"/src/*.cpp "$W/gen/parser.cpp"; do echo "g++ $F $INC -c $f -o $W/obj/$(basename "$f" .cpp).o"; done ) | xargs -P 16 -I{} sh -c "{}"
( for f in "$V"/sim/*.cpp; do echo "g++ -std=c++17 -O1 -DNDEBUG -DSIM_ASAN=0 -DSIM_COV=1 -w $INC -I$V/sim -c $f -o $W/obj/sim_$(basename "$f" .cpp).o"; done ) | xargs -P 16 -I{} sh -c "{}"
g++ --coverage -o "$W/utapsim.cov" "$W"/obj/*.o $XL -ldl
for pf in history: history:sweep storm: storm:envfault mirror: mirror:comment-in-text twin: blast: writer: writer:branchpoints writer:free-params writer:iofault; do
    p="${pf%%:*}"; f="${pf#*:}"
    "$W/utapsim.cov" run --profile "$p" ${f:+--family "$f"} --seed 77 --runs "$N" --workers 12 --replay-dir "$W/rp" --repo "$REPO" --no-shrink >/dev/null 2>&1 || true
done
cd "$W/obj"
echo "== line coverage of libutap under the simulator's workloads ($N runs per profile/family) =="
for f in "$REPO"/src/*.cpp; do
    b="$(basename "$f" .cpp)"
    gcov -o "$W/obj" "$W/obj/$b.gcno" 2>/dev/null | grep -A1 "File '$f'" | tail -1 | sed "s|^|$b.cpp: |"
done
gcov -o "$W/obj" "$W/obj/parser.gcno" 2>/dev/null | grep -A1 "parser.y'" | tail -1 | sed "s|^|parser.y: |"
gcov -o "$W/obj" "$W/obj/parser.gcno" 2>/dev/null | grep -A1 "lexer.l'" | tail -1 | sed "s|^|lexer.l: |"
if [ "${FUNCS:-1}" = 1 ]; then
    echo "== functions never executed (anchor files) =="
    for b in xmlreader xmlwriter DocumentBuilder ExpressionBuilder StatementBuilder document position; do
        gcov -f -o "$W/obj" "$W/obj/$b.gcno" 2>/dev/null | grep -B1 "Lines executed:0.00%" | grep "^Function" | sed "s/^Function '//; s/'$//" | c++filt | grep -v "^std::\|__gnu\|_GLOBAL" | sed "s|^|$b: |" | head -40
    done
fi
if [ -n "${KEEP_GCOV:-}" ]; then mkdir -p "$KEEP_GCOV"; cp "$W"/obj/*.gcov "$KEEP_GCOV"/ 2>/dev/null || true; fi
