#!/bin/bash
# try_patch.sh <patch.diff> <property-id>... : applies the patch to a scratch worktree of /repo's HEAD (never to /repo), runs
# the quick checks of the given properties against it, prints one line per property, removes the worktree.
# Exit 0 when at least one of the checks reported a VIOLATION (the mutation was caught).
set -u
V="$(cd "$(dirname "$0")/.." && pwd)"
patch="$(readlink -f "$1")"; shift
wt="$(mktemp -d /tmp/vt_XXXXXX)"
rmdir "$wt"
git -C /repo worktree add -q --detach "$wt" HEAD || exit 3
trap 'git -C /repo worktree remove --force "$wt" >/dev/null 2>&1; rm -rf "$wt.out"' EXIT
if ! git -C "$wt" apply "$patch"; then echo "PATCH-DOES-NOT-APPLY $patch"; exit 3; fi
mkdir -p "$wt.out"
caught=1
for pid in "$@"; do
    out="$(VERIF_REPO="$wt" VERIF_EVIDENCE_DIR="$wt.out/ev" VERIF_REPLAY_DIR="$wt.out/rp" VERIF_BUDGET_SCALE="${SCALE:-1}" VERIF_SEED="${VERIF_SEED:-1}" "$V/check" "$pid" "${TIER:-quick}" 2>&1)"
    rc=$?
    nv=$(echo "$out" | grep -c '^VIOLATION')
    echo "$(basename "$(dirname "$patch")")/$(basename "$patch") $pid rc=$rc violations=$nv :: $(echo "$out" | grep -A2 '^VIOLATION' | grep -v '^VIOLATION' | head -2 | tr '\n' ' ' | cut -c1-400)"
    [ "${VERBOSE:-0}" = 1 ] && echo "$out" | head -40
    [ $rc -eq 1 ] && caught=0
done
exit $caught
