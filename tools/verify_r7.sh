#!/bin/bash
# verify_r7.sh <agent-worktree> <property-id> <slot>: confirms a round-7 sub-agent change in the agent's own scratch worktree
# (patched build + ctest + demo fails; reverted build + demo passes), copies the deliverables to /verif/seeded/<id>/<slot>/.
set -u
wt="$1"; pid="$2"; slot="$3"
V="$(cd "$(dirname "$0")/.." && pwd)"
out="$V/seeded/$pid/$slot"; mkdir -p "$out"
cd "$wt" || exit 3
git diff -- src include > "$out/patch.diff"
[ -s "$out/patch.diff" ] || cp patch.diff "$out/patch.diff"
cp -f demo.cpp demo_build.sh NOTES.md "$out/" 2>/dev/null
b=fail; t=n/a; dp=n/a; dc=n/a
if cmake --build _build >/dev/null 2>&1; then b=ok
  if ctest --test-dir _build -j8 --timeout 900 >/dev/null 2>&1; then t=pass; else t=FAIL; fi
  bash ./demo_build.sh >/dev/null 2>&1
  exe=$(ls -t demo demo.out a.out _build/demo 2>/dev/null | head -1)
  timeout 120 ./$exe > /tmp/r7demo_p.log 2>&1; dp=$?
  git apply -R "$out/patch.diff" && cmake --build _build >/dev/null 2>&1 && bash ./demo_build.sh >/dev/null 2>&1
  timeout 120 ./$exe > /tmp/r7demo_c.log 2>&1; dc=$?
  git apply "$out/patch.diff"
fi
echo "RESULT $pid/$slot build=$b ctest=$t demo_patched_exit=$dp($(tail -1 /tmp/r7demo_p.log | cut -c1-80)) demo_clean_exit=$dc($(tail -1 /tmp/r7demo_c.log | cut -c1-60))"
