#!/usr/bin/env python3
"""mutation_campaign.py <worker-id> <n-workers> <out.jsonl> [seed]

Systematic sensitivity measurement: first-order source mutants (relational / logical operator swaps, off-by-one,
boolean constants, negated conditions, deleted call statements) of the files the claimed properties are anchored in.
For each sampled mutant, in a private scratch worktree of /repo (never /repo itself):
  1. incremental CMake build + the repository's own tests; a mutant the tests kill is recorded and skipped;
  2. the quick checks of the properties that file serves, at a reduced budget, against the mutated tree (VERIF_REPO);
  3. one JSON line: file, line, operator, before/after, tests, per-check exit code.
Survivors (tests pass, no check fires) are either equivalent mutants or gaps; they are listed for manual triage.
Workers partition the sampled mutants by index modulo n-workers.
"""
import json, os, random, re, subprocess, sys, time

V = os.path.dirname(os.path.dirname(os.path.abspath(__file__)))
worker, nworkers, out = int(sys.argv[1]), int(sys.argv[2]), sys.argv[3]
seed = int(sys.argv[4]) if len(sys.argv) > 4 else 1
WT = "/tmp/mut_wt_%d" % worker

TARGETS = [
    # file, (first line, last line) ranges or None, checks, how many mutants to sample
    ("src/xmlreader.cpp", [(440, 1400)], ["C04", "C06", "C01"], 34),
    ("src/xmlwriter.cpp", [(100, 460)], ["C20"], 22),
    ("src/DocumentBuilder.cpp", [(130, 420)], ["C04", "C08", "C16"], 26),
    ("src/document.cpp", [(130, 330), (780, 960), (1080, 1120)], ["C08", "C04"], 18),
    ("src/position.cpp", None, ["C06", "C15"], 6),
    ("src/libparser.h", [(60, 130)], ["C06", "C15"], 6),
    ("src/ExpressionBuilder.cpp", [(60, 120), (620, 700), (980, 1120)], ["C16", "C01"], 10),
]

# second campaign (MUT_SET=2): the files behind the anchors - type checker, grammar actions, scanner, statement and
# expression builders, types, symbols, the XML reader's path / libxml2 glue, expression and document helpers
TARGETS2 = [
    ("src/typechecker.cpp", None, ["C16", "C01", "C06"], 30),
    ("src/parser.y", [(330, 2150)], ["C05", "C01", "C06"], 18),
    ("src/lexer.l", [(60, 250)], ["C06", "C15", "C01"], 8),
    ("src/StatementBuilder.cpp", None, ["C04", "C08", "C01"], 12),
    ("src/ExpressionBuilder.cpp", [(120, 620), (700, 980)], ["C16", "C04", "C01"], 12),
    ("src/type.cpp", None, ["C20", "C08", "C04"], 10),
    ("src/symbols.cpp", None, ["C08", "C04", "C16"], 8),
    ("src/xmlreader.cpp", [(60, 440)], ["C06", "C04", "C01"], 12),
    ("src/expression.cpp", [(60, 700)], ["C20", "C04", "C01"], 10),
]
if os.environ.get("MUT_SET") == "2":
    TARGETS = TARGETS2

OPS = [
    ("rel-eq", re.compile(r"(?<![=!<>])==(?!=)"), "!="),
    ("rel-ne", re.compile(r"!=(?!=)"), "=="),
    ("rel-lt", re.compile(r"(?<=\s)<(?=\s)"), "<="),
    ("rel-gt", re.compile(r"(?<=\s)>(?=\s)"), ">="),
    ("rel-le", re.compile(r"(?<=\s)<=(?=\s)"), "<"),
    ("rel-ge", re.compile(r"(?<=\s)>=(?=\s)"), ">"),
    ("log-and", re.compile(r"&&"), "||"),
    ("log-or", re.compile(r"\|\|"), "&&"),
    ("plus1", re.compile(r"\+ 1\b"), "- 1"),
    ("minus1", re.compile(r"- 1\b"), "+ 1"),
    ("true", re.compile(r"\btrue\b"), "false"),
    ("false", re.compile(r"\bfalse\b"), "true"),
    ("neg-if", re.compile(r"\bif \((?!!)"), "if (!("),  # handled specially
    ("del-call", None, None),
]


def candidates(path, ranges):
    lines = open(os.path.join("/repo", path)).read().split("\n")
    res = []
    for i, l in enumerate(lines, 1):
        if ranges and not any(a <= i <= b for a, b in ranges):
            continue
        t = l.strip()
        if not t or t.startswith(("//", "*", "/*", "#", "assert", "case ", "default:", "static_assert")):
            continue
        if "throw " in t and "if" not in t:
            continue
        for name, rx, rep in OPS:
            if name == "del-call":
                if re.match(r"^(parser->|tracker\.|writer|xml|startElement|endElement|writeAttribute|label\(|read\(\)|close\(|fragments\.|frames\.|push_frame|popFrame|currentEdge->|currentTemplate->|instance\.|process\.|templ\.|edge\.|loc\.)[^=]*\);\s*$", t):
                    res.append((i, name, l, l.replace(t, "/* deleted: */ ;", 1)))
                continue
            if name == "neg-if":
                m = re.match(r"^(\s*)(?:\} else )?if \((.*)\)(\s*\{?)\s*$", l)
                if m and "(" not in m.group(2).replace("()", "") or (m and m.group(2).count("(") == m.group(2).count(")")):
                    if m:
                        res.append((i, name, l, l.replace("if (" + m.group(2) + ")", "if (!(" + m.group(2) + "))", 1)))
                continue
            for m in rx.finditer(l):
                if "//" in l[: m.start()]:
                    break
                if name in ("rel-lt", "rel-gt") and ("template" in l or "#include" in l or "<<" in l or ">>" in l or "->" in l[max(0, m.start() - 2) : m.end() + 1]):
                    continue
                res.append((i, name, l, l[: m.start()] + rep + l[m.end() :]))
    return res


def sh(cmd, timeout=3600, env=None):
    p = subprocess.run(cmd, shell=True, stdout=subprocess.PIPE, stderr=subprocess.STDOUT, text=True, timeout=timeout, env=env)
    return p.returncode, p.stdout


def main():
    rng = random.Random(seed)
    plan = []
    for path, ranges, checks, n in TARGETS:
        c = candidates(path, ranges)
        rng.shuffle(c)
        # at most one mutant per line, spread over operators
        seen, pick = set(), []
        for cand in c:
            if cand[0] in seen:
                continue
            seen.add(cand[0])
            pick.append(cand)
            if len(pick) >= n:
                break
        for cand in pick:
            plan.append((path, checks) + cand)
    mine = [m for k, m in enumerate(plan) if k % nworkers == worker]
    if not os.path.isdir(WT):
        rc, o = sh("git -C /repo worktree add -q --detach %s HEAD" % WT)
        if rc:
            print(o)
            sys.exit(3)
        rc, o = sh("cmake -G Ninja -S %s -B %s/_build -DCMAKE_BUILD_TYPE=RelWithDebInfo -DUTAP_WITH_TESTS=ON -DLIBXML2_INCLUDE_DIR=/usr/include/libxml2 "
                   "-DLIBXML2_LIBRARY=/usr/lib/x86_64-linux-gnu/libxml2.so >/dev/null && cmake --build %s/_build" % (WT, WT, WT))
        if rc:
            print(o[-2000:])
            sys.exit(3)
    done = set()
    if os.path.exists(out):
        for l in open(out):
            try:
                j = json.loads(l)
                done.add((j["file"], j["line"], j["op"]))
            except Exception:
                pass
    for path, checks, line, op, before, after in mine:
        if (path, line, op) in done:
            continue
        f = os.path.join(WT, path)
        src = open(f).read().split("\n")
        if src[line - 1] != before:
            continue
        src[line - 1] = after
        open(f, "w").write("\n".join(src))
        rec = {"file": path, "line": line, "op": op, "before": before.strip(), "after": after.strip(), "checks": {}}
        t0 = time.time()
        rc, o = sh("cmake --build %s/_build 2>&1 | tail -3" % WT)
        rc_b, _ = sh("cmake --build %s/_build >/dev/null 2>&1" % WT)
        if rc_b != 0:
            rec["tests"] = "does-not-compile"
        else:
            rc_t, _ = sh("ctest --test-dir %s/_build -j4 --timeout 300 >/dev/null 2>&1" % WT)
            rec["tests"] = "pass" if rc_t == 0 else "killed-by-repo-tests"
        if rec["tests"] == "pass":
            env = dict(os.environ, VERIF_REPO=WT, VERIF_EVIDENCE_DIR=WT + ".out/ev", VERIF_REPLAY_DIR=WT + ".out/rp",
                       VERIF_BUDGET_SCALE=os.environ.get("MUT_SCALE", "0.4"), VERIF_SEED="1")
            for pid in checks:
                try:
                    rc_c, oc = sh("%s/check %s quick" % (V, pid), timeout=1500, env=env)
                except subprocess.TimeoutExpired:
                    rc_c, oc = 124, ""
                first = ""
                for ln in oc.split("\n"):
                    if ln.startswith("  class="):
                        first = ln.strip()[:160]
                        break
                rec["checks"][pid] = {"rc": rc_c, "first": first}
                if rc_c == 1:
                    break  # killed: no need to run the remaining checks
        rec["wall_s"] = round(time.time() - t0, 1)
        with open(out, "a") as fo:
            fo.write(json.dumps(rec) + "\n")
        sh("git -C %s checkout -q -- ." % WT)
        sh("rm -rf %s.out" % WT)
    sh("git -C /repo worktree remove --force %s" % WT)


if __name__ == "__main__":
    main()
