#!/bin/bash
# verify_seeded.sh <seeded-dir> <property-id>...: confirms a sub-agent's change independently
#  (a) patch applies to /repo HEAD, builds with the repository's CMake, the repository's tests pass,
#  (b) its demonstration FAILs on the patched tree and PASSes on the clean tree,
#  (c) runs the quick checks of the given properties against the patched tree (scratch worktree; /repo is never touched).
set -u
V="$(cd "$(dirname "$0")/.." && pwd)"
dir="$(readlink -f "$1")"; shift
CM="-G Ninja -DCMAKE_BUILD_TYPE=RelWithDebInfo -DUTAP_WITH_TESTS=ON -DLIBXML2_INCLUDE_DIR=/usr/include/libxml2 -DLIBXML2_LIBRARY=/usr/lib/x86_64-linux-gnu/libxml2.so"
base=/tmp/wt_base
if [ ! -d "$base/_build" ]; then
    git -C /repo worktree add -q --detach "$base" HEAD 2>/dev/null
    cmake $CM -S "$base" -B "$base/_build" >/dev/null 2>&1 && cmake --build "$base/_build" >/dev/null 2>&1 || { echo "baseline build failed"; exit 3; }
fi
wt="$(mktemp -d /tmp/vq_XXXXXX)"; rmdir "$wt"
git -C /repo worktree add -q --detach "$wt" HEAD || exit 3
trap 'git -C /repo worktree remove --force "$wt" >/dev/null 2>&1; rm -rf "$wt.out"' EXIT
git -C "$wt" apply "$dir/patch.diff" || { echo "RESULT $dir patch-does-not-apply"; exit 3; }
b="fail"; t="n/a"
if cmake $CM -S "$wt" -B "$wt/_build" >/dev/null 2>&1 && cmake --build "$wt/_build" >/dev/null 2>&1; then
    b="ok"
    if ctest --test-dir "$wt/_build" -j8 --timeout 900 >/dev/null 2>&1; then t="pass"; else t="FAIL"; fi
fi
dp="n/a"; dc="n/a"
if [ -f "$dir/run.sh" ]; then
    tmpd="$(mktemp -d)"; cp -r "$dir"/. "$tmpd/"
    (cd "$tmpd" && WT="$wt" timeout 600 bash ./run.sh >"$wt.demo_patched.log" 2>&1); dp=$?
    (cd "$tmpd" && WT="$base" timeout 600 bash ./run.sh >"$wt.demo_clean.log" 2>&1); dc=$?
    rm -rf "$tmpd"
fi
echo "RESULT $(basename "$(dirname "$dir")")/$(basename "$dir") build=$b ctest=$t demo_patched_exit=$dp($(tail -1 "$wt.demo_patched.log" 2>/dev/null | cut -c1-80)) demo_clean_exit=$dc($(tail -1 "$wt.demo_clean.log" 2>/dev/null | cut -c1-60))"
rm -f "$wt".demo_*.log
rm -rf "$wt/_build"
mkdir -p "$wt.out"
for pid in "$@"; do
    out="$(VERIF_REPO="$wt" VERIF_EVIDENCE_DIR="$wt.out/ev" VERIF_REPLAY_DIR="$wt.out/rp" VERIF_BUDGET_SCALE="${SCALE:-1}" VERIF_SEED="${VERIF_SEED:-1}" "$V/check" "$pid" "${TIER:-quick}" 2>&1)"; rc=$?
    echo "CHECK $(basename "$(dirname "$dir")")/$(basename "$dir") $pid rc=$rc violations=$(echo "$out" | grep -c '^VIOLATION') :: $(echo "$out" | grep -A2 '^VIOLATION' | grep -v '^VIOLATION\|^--' | head -2 | tr '\n' ' ' | cut -c1-360)"
done
