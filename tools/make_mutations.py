#!/usr/bin/env python3
"""Generates /verif/sensitivity/<name>.diff: hand-written source mutations (DESIGN.md 5.1), each of which compiles and passes the
repository's own tests but breaks one property.  Run from a clean scratch worktree of /repo: python3 make_mutations.py <worktree>"""
import subprocess, sys, os, json
wt = sys.argv[1]
out = "/verif/sensitivity"
M = []
def mut(name, props, file, old, new, count=1):
    M.append((name, props, file, old, new, count))

# ---------------- C15 ----------------
# (deleting BEGIN(INITIAL) from <comment><<EOF>> alone is now an equivalent mutant: every parse resets the start condition)
# the BEGIN(INITIAL) at the start of each parse (an earlier fix) would mask it: remove both for this mutation
mut("c15-no-start-condition-reset", ["C15"], "src/parser.y", "    // A previous parse may have been abandoned (exception) in the middle of a comment\n    BEGIN(INITIAL);\n", "")
# (a start token that stays pending - "if (old != T_PROPERTY) syntax_token = 0" - fails the repository's own tests: not a valid mutant)
mut("c15-setpath-keeps-line", ["C15", "C06"], "src/libparser.h", "        line = 1;\n        offset = 0;\n        path = std::make_shared<std::string>(s);", "        if (s.empty() || line == 0) line = 1;\n        offset = 0;\n        path = std::make_shared<std::string>(s);")
mut("c15-types-counter-not-reset", ["C15"], "src/parser.y", "        { types = 0; } ArrayDecl2;", "        { } ArrayDecl2;")
mut("c15-yylloc-not-reset", ["C15"], "src/parser.y", "    yylloc.start = yylloc.end = tracker.position;\n\n    // Parse string", "\n    // Parse string")
# ---------------- C04 ----------------
mut("c04-swap-source-target-nonself", ["C04"], "src/xmlreader.cpp", "            parser->proc_edge_begin(from.c_str(), to.c_str(), control, actname.c_str());", "            if (!control && from != to) std::swap(from, to);\n            parser->proc_edge_begin(from.c_str(), to.c_str(), control, actname.c_str());")
mut("c04-selfloop-always-controllable", ["C04", "C05"], "src/xmlreader.cpp", "            parser->proc_edge_begin(from.c_str(), to.c_str(), control, actname.c_str());", "            parser->proc_edge_begin(from.c_str(), to.c_str(), control || from == to, actname.c_str());")
mut("c04-args-bound-reversed", ["C04"], "src/document.cpp", "    for (size_t i = 0; i < arguments.size(); ++i)\n        instance.mapping[inst.parameters[i]] = arguments[i];", "    for (size_t i = 0; i < arguments.size(); ++i)\n        instance.mapping[inst.parameters[i]] = arguments[arguments.size() > 2 ? arguments.size() - 1 - i : i];")
mut("c04-committed-dropped-with-rate", ["C04"], "src/xmlreader.cpp", "            if (l_committed)\n                parser->proc_location_commit(l_name.c_str());", "            if (l_committed && !l_exponentialRate)\n                parser->proc_location_commit(l_name.c_str());")
# ---------------- C05 ----------------
mut("c05-xta-uncontrollable-chained", ["C05"], "src/parser.y", "            CALL(@1, @2, proc_edge_begin(rootTransId, $2, false));", "            CALL(@1, @2, proc_edge_begin(rootTransId, $2, true));")
mut("c05-roottransid-not-updated-uncontrollable", ["C05"], "src/parser.y", "            CALL(@1, @3, proc_edge_begin($1, $3, false));\n        } Select Guard Sync Assign Probability '}' {\n          strcpy(rootTransId, $1);", "            CALL(@1, @3, proc_edge_begin($1, $3, false));\n        } Select Guard Sync Assign Probability '}' {")
mut("c05-xta-commit-list-tail-urgent", ["C05"], "src/parser.y", "          CALL(@1, @3, proc_location_commit($3));", "          CALL(@1, @3, proc_location_urgent($3));")
# ---------------- C06 ----------------
mut("c06-crlf-newline-count", ["C06"], "src/lexer.l", "    tracker.newline(ch, yyleng / 2);", "    tracker.newline(ch, yyleng);")
mut("c06-label-sibling-count", ["C06"], "src/xmlreader.cpp", 'case tag_t::LABEL: str << "/label[" << count(level, tag_t::LABEL) << "]"; break;', 'case tag_t::LABEL: str << "/label[" << std::min<int>(count(level, tag_t::LABEL), 3) << "]"; break;')
# ---------------- C08 ----------------
mut("c08-location-nr-after-duplicate", ["C08"], "src/document.cpp", "    loc.nr = locations.size() - 1;", "    loc.nr = duplicate ? locations.size() : locations.size() - 1;")
mut("c08-edge-keeps-both-endpoints", ["C08"], "src/document.cpp", "        edge.dst = nullptr;\n        edge.dstb = static_cast<branchpoint_t*>(dst.get_data());", "        edge.dst = edge.src;\n        edge.dstb = static_cast<branchpoint_t*>(dst.get_data());")
mut("c08-process-registers-instance", ["C08"], "src/document.cpp", "    process.uid = global.frame.add_symbol(instance.uid.get_name(), type, pos, &process);", "    process.uid = global.frame.add_symbol(instance.uid.get_name(), type, pos, process.unbound ? (void*)&instance : (void*)&process);")
# ---------------- C16 ----------------
mut("c16-no-dummy-frame-on-bad-target", ["C01"], "src/DocumentBuilder.cpp", '        handle_error(TypeException{"$No_such_location_or_branchpoint_(destination)"});\n        push_frame(frame_t::create(frames.top()));  // dummy frame for upcoming popFrame', '        handle_error(TypeException{"$No_such_location_or_branchpoint_(destination)"});')
mut("c16-parse-end-keeps-fragments", ["C16"], "src/ExpressionBuilder.cpp", "    while (fragments.size() > fragmentsMark)\n        fragments.pop();", "    while (fragments.size() > fragmentsMark + 1)\n        fragments.pop();")
mut("c16-parse-end-keeps-frames-on-success", ["C16"], "src/ExpressionBuilder.cpp", "    while (frames.size() > framesMark)\n        frames.pop();\n    if (success)\n        return;", "    if (success)\n        return;\n    while (frames.size() > framesMark)\n        frames.pop();")
# ---------------- C20 ----------------
mut("c20-init-last-location-when-many", ["C20"], "src/xmlwriter.cpp", "    int id = static_cast<const location_t*>(templ.init.get_data())->nr;", "    int id = static_cast<const location_t*>(templ.init.get_data())->nr;\n    if (templ.locations.size() > 3 && id == 1) id = 0;")
mut("c20-target-of-second-branchpoint", ["C20"], "src/xmlwriter.cpp", '    const auto id = edge.dst ? concat("id", loc) : concat("bp", edge.dstb->bpNr);\n    startElement("target");', '    const auto id = edge.dst ? concat("id", loc) : concat("bp", edge.dstb->bpNr ? edge.dstb->bpNr - 1 : 0);\n    startElement("target");')
mut("c20-selfloop-labels-skipped-on-third", ["C20"], "src/xmlwriter.cpp", "        selfLoop(src, angle, edge);", "        if (selfLoops[src] < 2) selfLoop(src, angle, edge); else nail(STEP * src, STEP * dst);")
mut("c20-uncontrollable-only-without-sync", ["C20"], "src/xmlwriter.cpp", "    if (!edge.control)\n        writeAttribute(\"controllable\", \"false\");", "    if (!edge.control && edge.sync.empty())\n        writeAttribute(\"controllable\", \"false\");")
# ---------------- C01 ----------------
mut("c01-label-without-kind", ["C01"], "src/xmlreader.cpp", '        char* kind = getAttribute("kind");\n        if (kind == nullptr)\n            throw TypeException("A label must have a \\"kind\\" attribute");\n        read();\n        /* Read the text and push it to the parser. */\n        if (getNodeType() == XML_READER_TYPE_TEXT) {\n            const xmlChar* text = xmlTextReaderConstValue(reader.get());\n            static const auto map', '        char* kind = getAttribute("kind");\n        read();\n        /* Read the text and push it to the parser. */\n        if (getNodeType() == XML_READER_TYPE_TEXT) {\n            const xmlChar* text = xmlTextReaderConstValue(reader.get());\n            static const auto map')
mut("c01-eintr-fatal-exit", ["C01"], "src/lexer.l", "#define YY_FATAL_ERROR(msg) { throw TypeException(msg); }", "")

# ---------------- second batch (from the plan in DESIGN.md 5.1) ----------------
mut("c01-proc-guard-null-edge", ["C01"], "src/DocumentBuilder.cpp", "void DocumentBuilder::proc_guard()\n{\n    if (!currentEdge) {\n        handle_error(TypeException(\"Must be declared inside of an edge\"));\n        return;\n    }\n", "void DocumentBuilder::proc_guard()\n{\n")
mut("c16-paren-error-pushes-nothing", ["C16", "C01"], "src/parser.y", "        | '(' error ')' {\n          CALL(@1, @3, expr_false());\n        }\n        | Expression T_INCREMENT", "        | '(' error ')' {\n        }\n        | Expression T_INCREMENT")
mut("c20-labels-sync-text-in-guard-when-both", ["C20"], "src/xmlwriter.cpp", "        label(\"guard\", edge.guard.str(), x, y - 16);", "        label(\"guard\", !edge.sync.empty() && !edge.prob.empty() ? edge.sync.str() : edge.guard.str(), x, y - 16);")
mut("c20-last-edge-skipped-when-many", ["C20"], "src/xmlwriter.cpp", "    for (auto& e : templ.edges)\n        transition(e);", "    for (auto& e : templ.edges)\n        if (templ.edges.size() < 9 || &e != &templ.edges.back())\n            transition(e);")
mut("c05-xta-probability-error-swallowed", ["C05", "C06"], "src/parser.y", "          CALL(@2, @2, proc_prob());\n        }", "          if (strlen(rootTransId) < 3) CALL(@2, @2, proc_prob());\n        }")
mut("c04-location-keeps-previous-invariant-flag", ["C04", "C08", "C01"], "src/xmlreader.cpp", "bool XMLReader::location()\n{\n    bool l_invariant = false;", "bool XMLReader::location()\n{\n    static bool l_invariant = false;")

subprocess.check_call(["git", "-C", wt, "checkout", "-q", "--", "."])
os.makedirs(out, exist_ok=True)
index = []
for name, props, file, old, new, count in M:
    p = os.path.join(wt, file)
    s = open(p).read()
    if s.count(old) < 1:
        print("NOT FOUND:", name); continue
    s2 = s.replace(old, new, count)
    open(p, "w").write(s2)
    d = subprocess.check_output(["git", "-C", wt, "diff"], text=True)
    open(os.path.join(out, name + ".diff"), "w").write(d)
    subprocess.check_call(["git", "-C", wt, "checkout", "-q", "--", "."])
    index.append({"name": name, "expected_to_break": props, "file": file})
json.dump(index, open(os.path.join(out, "index.json"), "w"), indent=1)
print(len(index), "mutations written")
