// Profile storm (C01): stored models are damaged by 1-3 content faults (byte, structure, token
// granularity) and loaded through every public entry point x syntax switch x back end under varying
// delivery schedules; family "envfault" adds I/O errors and allocation failures.
#include "prof_common.h"

#include <sstream>

namespace sim {

namespace {

std::string deep_expr(int depth, int shape)
{
    std::string s;
    switch (shape) {
    case 0:
        for (int i = 0; i < depth; ++i)
            s += "(";
        s += "1";
        for (int i = 0; i < depth; ++i)
            s += ")";
        break;
    case 1:
        for (int i = 0; i < depth; ++i)
            s += "-";
        s += "gi0";
        break;
    case 2:
        for (int i = 0; i < depth; ++i)
            s += "gi0 + (";
        s += "1";
        for (int i = 0; i < depth; ++i)
            s += ")";
        break;
    case 3:
        for (int i = 0; i < depth; ++i)
            s += "arr[";
        s += "0";
        for (int i = 0; i < depth; ++i)
            s += "]";
        break;
    default:
        s = "1";
        for (int i = 0; i < depth; ++i)
            s += " ? 1 : 1";
        break;
    }
    return s;
}

}  // namespace

void profile_storm(RunCtx& ctx)
{
    Rng rng{ctx.run_seed};
    const bool envfault = ctx.family == "envfault";
    const int nops = ctx.thorough ? rng.range(10, 40) : rng.range(6, 20);
    ctx.c06_applicable = false;
    ctx.count(std::string{"family:"} + (envfault ? "envfault" : "content"));
    Session last;  // block and property parses work on the most recently loaded document
    // one rich model per run is the seed material for most inputs
    GenCfg cfg = draw_cfg(rng);
    cfg.queries = true;
    if (ctx.simplify & SIMP_SMALLMODEL) {
        cfg.max_templates = 1;
        cfg.max_locs = 2;
        cfg.max_edges = 2;
        cfg.max_gdecls = 3;
    }
    Model base = gen_model(rng, cfg);
    XmlKnobs kn = draw_knobs(rng);
    Rng rr = rng.fork();
    const std::string base_xml = render_xml(base, kn, rr);
    const std::string base_xta = render_xta(base);
    const auto blocks = list_blocks(base);
    std::string sample;
    for (int i = 0; i < nops; ++i) {
        CallSpec c;
        std::string what;
        int kind = rng.below(100);
        // --- choose input and entry point ---
        if (rng.chance(0.02)) {
            // a ladder of constants in which every rung uses the previous rung(s) several times (two interleaved chains form
            // diamonds), and a template-local array sized by the last one: linear work if shared dependencies are visited
            // once, exponential if they are re-expanded
            const int depth = rng.range(8, 40);
            const bool diamonds = rng.chance(0.7);
            std::string decl = "const int zb0 = 1; const int zc0 = 2;\n";
            for (int d = 1; d <= depth; ++d) {
                const std::string pv = std::to_string(d - 1), nx = std::to_string(d);
                if (diamonds)
                    decl += "const int zb" + nx + " = zb" + pv + " + zc" + pv + "; const int zc" + nx + " = zb" + pv + " - zc" + pv + " + 1;\n";
                else
                    decl += "const int zc" + nx + " = zc" + pv + " + zc" + pv + " - zc" + pv + ";\n";
            }
            c.bytes = "<nta><declaration>" + decl + "</declaration><template><name>ZT</name><declaration>int zarr[z" + std::string{diamonds ? "b" : "c"} + std::to_string(depth) +
                      " * 0 + 3];</declaration><location id=\"id0\"><name>L0</name></location><init ref=\"id0\"/></template><system>ZP = ZT(); system ZP;</system></nta>";
            c.entry = rng.below(3);
            what = "constant-ladder";
            ctx.count("content-fault:constant-ladder");
        } else if (rng.chance(0.04)) {
            // a DOCTYPE with nested internal entities referenced from a text block ("billion laughs"): harmless as long
            // as entity references are not substituted; exponential in the nesting depth when they are
            int depth = rng.range(3, 14), fan = rng.range(2, 12);
            std::string dt = "<!DOCTYPE nta [\n<!ENTITY e0 \"int zz;\">\n";
            for (int d = 1; d <= depth; ++d) {
                dt += "<!ENTITY e" + std::to_string(d) + " \"";
                for (int f = 0; f < fan; ++f)
                    dt += "&e" + std::to_string(d - 1) + ";";
                dt += "\">\n";
            }
            dt += "]>\n";
            c.bytes = base_xml;
            size_t dpos = c.bytes.find("<!DOCTYPE");
            if (dpos != std::string::npos) {
                size_t dend = c.bytes.find('>', dpos);
                c.bytes.erase(dpos, dend == std::string::npos ? 0 : dend + 1 - dpos);
            }
            size_t root = c.bytes.find("<nta");
            if (root != std::string::npos)
                c.bytes.insert(root, dt);
            size_t decl = c.bytes.find("<declaration>");
            if (decl != std::string::npos)
                c.bytes.insert(decl + 13, "&e" + std::to_string(depth) + ";");
            c.entry = rng.below(3);
            what = "entity-bomb";
            ctx.count("content-fault:entity-bomb");
        } else if (kind < 50) {
            bool use_corpus = !corpus().empty() && rng.chance(0.2);
            c.bytes = use_corpus ? corpus()[rng.below((uint32_t)corpus().size())].second : base_xml;
            what = use_corpus ? "corpus-xml" : "generated-xml";
            c.entry = rng.below(3);
            int nf = rng.range(1, 3);
            if (!use_corpus && rng.chance(0.35)) {
                // model-level faults: well-formed XML whose meaning is wrong (duplicate names, wrong argument counts, ...)
                Model mf = base;
                int applied = 0;
                for (int tries = 0, want = rng.chance(0.6) ? 1 : 2; tries < 4 && applied < want; ++tries) {
                    int f = rng.below(MF_COUNT);
                    if (apply_model_fault(mf, f, rng)) {
                        what += std::string{"+"} + model_fault_name(f);
                        ctx.count(std::string{"content-fault:model:"} + model_fault_name(f));
                        ++applied;
                    }
                }
                Rng r2 = rng.fork();
                c.bytes = render_xml(mf, kn, r2);
                nf = rng.range(0, 1);
            }
            for (int f = 0; f < nf; ++f) {
                std::string d;
                int g = rng.below(10);
                if (g < 5) {
                    int k = rng.below(SF_COUNT);
                    c.bytes = apply_struct_fault(c.bytes, k, rng, d);
                    ctx.count(std::string{"content-fault:structure:"} + struct_fault_name(k));
                } else if (g < 8) {
                    c.bytes = apply_random_token_fault_xml(c.bytes, rng, d);
                    ctx.count("content-fault:token-in-xml-block");
                } else {
                    int k = rng.below(BF_COUNT);
                    c.bytes = apply_byte_fault(c.bytes, k, rng, d);
                    ctx.count(std::string{"content-fault:byte:"} + byte_fault_name(k));
                }
                what += "+" + d;
            }
        } else if (kind < 65) {
            c.bytes = base_xta;
            what = "generated-xta";
            c.entry = rng.chance(0.5) ? E_XTA_STR : E_XTA_FILE;
            int nf = rng.range(1, 2);
            if (rng.chance(0.35)) {
                Model mf = base;
                int applied = 0;
                for (int tries = 0, want = rng.chance(0.6) ? 1 : 2; tries < 4 && applied < want; ++tries) {
                    int f = rng.below(MF_COUNT);
                    if (apply_model_fault(mf, f, rng)) {
                        what += std::string{"+"} + model_fault_name(f);
                        ctx.count(std::string{"content-fault:model:"} + model_fault_name(f));
                        ++applied;
                    }
                }
                c.bytes = render_xta(mf);
                nf = rng.range(0, 1);
            }
            for (int f = 0; f < nf; ++f) {
                std::string d;
                if (rng.chance(0.7)) {
                    c.bytes = apply_random_token_fault_text(c.bytes, rng, d);
                    ctx.count("content-fault:token-in-text");
                } else {
                    int k = rng.below(BF_COUNT);
                    c.bytes = apply_byte_fault(c.bytes, k, rng, d);
                    ctx.count(std::string{"content-fault:byte:"} + byte_fault_name(k));
                }
                what += "+" + d;
            }
        } else if (kind < 85) {
            // one block of the model fed to a grammar entry point, matching or not
            auto& b = blocks[rng.below((uint32_t)blocks.size())];
            c.bytes = get_block_text(base, b);
            what = std::string{"block:"} + b.kind_name();
            c.entry = E_PART;
            static const int parts[] = {UTAP::S_XTA,        UTAP::S_DECLARATION, UTAP::S_LOCAL_DECL,      UTAP::S_INST,
                                        UTAP::S_SYSTEM,     UTAP::S_PARAMETERS,  UTAP::S_INVARIANT,       UTAP::S_EXPONENTIAL_RATE,
                                        UTAP::S_SELECT,     UTAP::S_GUARD,       UTAP::S_SYNC,            UTAP::S_ASSIGN,
                                        UTAP::S_EXPRESSION, UTAP::S_EXPRESSION_LIST, UTAP::S_PROPERTY,    UTAP::S_XTA_PROCESS,
                                        UTAP::S_PROBABILITY, UTAP::S_INSTANCE_LINE, UTAP::S_MESSAGE,      UTAP::S_UPDATE,
                                        UTAP::S_CONDITION};
            c.part = parts[rng.below(sizeof parts / sizeof parts[0])];
            if (rng.chance(0.1)) {
                c.bytes = deep_expr(1 << rng.range(4, 13), rng.below(5));
                what = "deep-expression";
            } else if (rng.chance(0.06)) {
                // lexical limits: identifiers around MAXLEN (4001), integers around 2^31, a long string literal
                static const int lens[] = {3998, 3999, 4000, 4001, 4002, 8191, 70000};
                std::string id(lens[rng.below(7)], 'z');
                static const char* nums[] = {"2147483647", "2147483648", "-2147483648", "4294967296", "99999999999999999999", "0000000000000000000000001", "1e400", "1.7976931348623157e308"};
                switch (rng.below(5)) {
                case 0: c.bytes = "int " + id + " = 1; int zq = " + id + " + 1;"; c.part = UTAP::S_DECLARATION; break;
                case 1: c.bytes = id + " > 1 && gi0 < " + nums[rng.below(8)]; c.part = UTAP::S_GUARD; break;
                case 2: c.bytes = std::string{"const int zlim = "} + nums[rng.below(8)] + "; int[0," + nums[rng.below(8)] + "] zr; double zd = " + nums[rng.below(8)] + ";"; c.part = UTAP::S_DECLARATION; break;
                case 3: c.bytes = "import \"" + id + "\" { int zf(int a); };"; c.part = UTAP::S_DECLARATION; break;
                default: c.bytes = "E<> " + id + "." + id + " && gi0 == " + nums[rng.below(8)]; c.part = UTAP::S_PROPERTY; break;
                }
                what = "lexical-limit";
            } else if (rng.chance(0.25)) {
                // corners of the grammar the model generator does not visit (statements, gantt, progress, update hooks,
                // scalars, records, external functions, dynamic templates, built-in functions); damaged like everything else
                struct Snip
                {
                    int part;
                    const char* text;
                };
                static const Snip snips[] = {
                    {UTAP::S_DECLARATION, "void zs1(int a) { switch (a) { case 0: gi0 = 1; break; case 1: gi0 = 2; default: gi0 = 3; } }"},
                    {UTAP::S_DECLARATION, "int zs2(int a) { int i = 0; while (i < a) { i++; if (i == 3) continue; if (i > 5) break; } do { i--; } while (i > 0); return i; }"},
                    {UTAP::S_DECLARATION, "void zs3() { int i; for (i = 0; i < 3; i++) { assert i >= 0; } for (j : int[0,2]) { gi0 += j; } }"},
                    {UTAP::S_DECLARATION, "typedef scalar[3] zsc_t; zsc_t zsv; int zsa[zsc_t]; meta int zsm; const bool zsb = true; string zss = \"x\";"},
                    {UTAP::S_DECLARATION, "typedef struct { int a; struct { bool b; clock c; } in; } zr_t; zr_t zr = { 1, { true } }; zr_t zrs[2];"},
                    {UTAP::S_DECLARATION, "import \"libzz.so\" { int zext(int a); zalias = double zsqrt(double x); };"},
                    {UTAP::S_DECLARATION, "before_update { gi0 = 0, gi0++ } after_update { gi0-- }"},
                    {UTAP::S_DECLARATION, "dynamic ZDyn(const int zp); int zn = numof(ZDyn);"},
                    {UTAP::S_DECLARATION, "double zd = fabs(-1.5) + sqrt(2.0) + pow(2, 3) + fmod(5.0, 2.0) + fma(1.0, 2.0, 3.0) + ceil(0.5); int zi = abs(-3) + fint(2.7);"},
                    {UTAP::S_DECLARATION, "urgent broadcast chan zub; chan zc2[2][3]; int[0,5] zbi = 2; const int zk[3] = { 1, 2, 3 }; hybrid clock zh;"},
                    {UTAP::S_DECLARATION, "int zop = (1 ^ 2) | (3 & 4) << 1 >> 1; bool zb2 = !(1 < 2) || (2 >= 1 and 3 != 4) imply not true; int zmm = 1 <? 2 >? 3;"},
                    {UTAP::S_DECLARATION, "chan priority ch0 < default; int zq = exists (i : int[0,1]) forall (j : int[0,1]) i == j;"},
                    {UTAP::S_SYSTEM, "system T0; progress { gi0; gi0 > 1 : gi0 + 1; } gantt { zg1 : gi0 > 1 -> 2; zg2(i : int[0,1]) : for (j : int[0,1]) gi0 == j -> i; }"},
                    {UTAP::S_SYSTEM, "zP1 = T0(); zP2 = T0(); system zP1 < zP2, T0;"},
                    {UTAP::S_SYSTEM, "IO T0 { ch0!, ch0? } system T0;"},
                    {UTAP::S_ASSIGN, "gi0 = spawn ZDyn(1), exit(), gi0 = (sum (d : ZDyn) d.zp)"},
                    {UTAP::S_GUARD, "forall (d : ZDyn) (d.zp > 0) && exists (d : ZDyn) (true) && numof(ZDyn) > 0"},
                    {UTAP::S_EXPRESSION, "T0.L0 && deadlock || gi0' == 2 && gx0' >= 1"},
                    {UTAP::S_XTA, "process ZP(int &zr; const int zc) { clock x; state A { x <= zc }, B; commit B; urgent A; init A; trans A -> B { guard x >= 1; sync ch0!; assign zr = 1; }, B -u-> A { }; } ZI = ZP(gi0, 3); system ZI;"},
                    {UTAP::S_XTA_PROCESS, "process ZQ() { state A, B; init A; trans A -> B { select i : int[0,1]; guard i > 0; probability 3; }, -> A { }; }"},
                    {UTAP::S_PROPERTY, "A[] (gi0 > 1 imply A<> gi0 == 0) and not deadlock\nE<> forall (i : int[0,1]) gi0 > i\ninf: gx0\nsup{gi0 > 1}: gi0, gx0"},
                    {UTAP::S_PROPERTY, "Pr[<=10; 100](<> gi0 > 3) >= 0.5\nE[<=10; 5](max: gi0)\nsimulate [<=10; 2] {gi0, gx0} : 1 : gi0 > 2\nPr[#<=5]([] gi0 < 3) <= Pr[<=5](<> gi0 > 1)"},
                    {UTAP::S_DECLARATION, "double zr1 = random(5); double zr2 = random_normal(1.0, 2.0); const double zr3 = random_tri(0, 1, 2); int zr4[2] = { 1, 2 };"},
                    {UTAP::S_PROPERTY, "Pr[<=random(5)](<> gi0 > 1)\nPr[<=10; 50](<> gi0 > 3) >= Pr[<=5; 20]([] gi0 < 2)\nPr[#<=10; 7]([] gi0 < 2) <= Pr[<=5](<> gi0 > 1)"},
                    {UTAP::S_PROPERTY, "strategy zst = control: A[] gi0 < 5\nA<> gi0 == 1 under zst\nsaveStrategy(\"/nonexistent/zz\", zst)\nstrategy zld = loadStrategy{gi0}->{gx0}(\"zz\")\nstrategy zmn = minE(gi0)[<=10]{gi0}->{gx0} : <> gi0 > 1"},
                };
                const Snip& sn = snips[rng.below(sizeof snips / sizeof snips[0])];
                c.bytes = sn.text;
                if (rng.chance(0.7))
                    c.part = sn.part;
                what = "grammar-snippet";
                if (rng.chance(0.6)) {
                    std::string d;
                    c.bytes = apply_random_token_fault_text(c.bytes, rng, d);
                    what += "+" + d;
                }
            } else if (rng.chance(0.6)) {
                std::string d;
                c.bytes = apply_random_token_fault_text(c.bytes, rng, d);
                what += "+" + d;
            }
            c.xpath = rng.chance(0.5) ? b.xpath : "";
        } else {
            static const std::vector<std::string> q{
                "A[] not deadlock", "E<> gi0 > 1", "Pr[<=10](<> gi0 > 3) >= 0.5", "Pr[<=10](<> gi0>3) >= Pr[<=5]([] gi0<2)", "Pr[<=10; 50](<> gi0>3) >= Pr[<=5; 20]([] gi0<2)", "Pr[<=10; 7](<> gi0>3) <= Pr[#<=5]([] gi0<2)",
                "simulate [<=10] {gi0, gx0}", "simulate [<=10;5] {gi0} : 2 : gi0 > 1", "E[<=10;10](max: gi0)",
                "control: A<> gi0 == 1", "strategy zs = control: A[] true", "strategy zm = minE(gi0)[<=10] : <> gi0 > 1",
                "saveStrategy(\"/nonexistent/s.out\", zs)", "strategy zl = loadStrategy{gi0}->{gx0}(\"f\")", "sup: gi0", "inf{gi0 > 1}: gx0, gi0",
                "bounds: gi0", "gi0 == 1 --> gi0 == 2", "A[] forall (i : int[0,3]) gi0 > i", "E<> T0.L0 && T0.gx0 > 2",
                "A<> exists (i : int[0,3]) i == gi0", "E<> sum (i : int[0,3]) i > 2", "Pr[#<=20](<> true)", "Pr[gx0<=20]([] true) <= 0.1",
                "control_t*(1,2): A<> true", "E<> scenario", "A[] true under zs", "{ gi0 } -> { gx0 } : A[] true"};
            c.bytes = rng.pick(q);
            what = "query";
            c.entry = rng.chance(0.6) ? E_PROP_STR : E_PROP_FILE;
            if (rng.chance(0.5)) {
                std::string d;
                c.bytes = apply_random_token_fault_text(c.bytes, rng, d);
                what += "+" + d;
            }
            if (rng.chance(0.2))
                c.bytes += "\n" + rng.pick(q) + "\n";
            c.xpath = rng.chance(0.3) ? "/nta/queries/query[1]/formula" : "";
        }
        // --- configuration: syntax switch and back end ---
        c.newxta = !rng.chance(0.3);
        {
            int b = rng.below(100);
            if (c.entry >= E_PROP_STR)
                c.backend = b < 60 ? B_TIGA : (b < 80 ? B_BUILDER : B_PRETTY);
            else
                c.backend = b < 55 ? B_DOC : (b < 70 ? B_BUILDER : (b < 88 ? B_PRETTY : B_TIGA));
        }
        // The LSC block syntaxes are only ever fed by the XML reader to a builder that has an LSC template and an
        // instance line open; that builder state is a precondition of the call, not part of the byte string, so
        // these parts are exercised with the stateless back ends only (DESIGN.md, C01).
        if (c.entry == E_PART && (c.backend == B_DOC || c.backend == B_BUILDER) &&
            (c.part == UTAP::S_INSTANCE_LINE || c.part == UTAP::S_MESSAGE || c.part == UTAP::S_UPDATE || c.part == UTAP::S_CONDITION))
            c.backend = rng.chance(0.5) ? B_PRETTY : B_TIGA;
        c.sched = ctx.draw_sched(rng, envfault && rng.chance(0.5));
        if (envfault && rng.chance(0.4))
            c.alloc_fail_at = 1 + (int64_t)rng.below(1u << rng.range(0, 14));
        if (envfault && c.backend == B_PRETTY && rng.chance(0.5))
            c.sink_fail_after = rng.below(rng.chance(0.5) ? 40 : 3000);
        // under environment faults the ceiling is generous rather than absent: an injected fault never makes a call
        // *more* expensive, and a loop that only the watchdog stops (10-60 s per run) would starve the whole batch
        c.ceiling = default_ceiling(c.bytes.size()) * (envfault && what.rfind("entity-bomb", 0) != 0 ? 8 : 1);
        if (!ctx.keep(i))
            continue;
        ctx.hint = what;
        if (sample.empty() && c.entry <= E_XML_FD)
            sample = "storm input (" + what + ") via " + c.str() + ":\n" + c.bytes.substr(0, 1200);
        const bool load = c.entry <= E_XTA_FILE;
        Session fresh;
        Session& s = load ? last : (rng.chance(0.7) ? last : fresh);
        CallResult r = ctx.call(s, c, i);
        if (ctx.violations)
            return;
        ctx.event(what + (r.threw ? "!" + r.exc_class : "=" + std::to_string(r.ret)));
        if (!r.threw && s.doc && s.doc->has_errors())
            ctx.count("calls-ending-with-diagnostics");
        if (!r.threw && s.doc && !s.doc->has_errors())
            ctx.count("calls-ending-clean");
        // pretty printing and dumping of whatever was built must not crash either (clients do that next)
        if (s.doc && !s.tainted && (c.backend == B_DOC || c.backend == B_BUILDER)) {
            try {
                std::string d = dump_document(*s.doc, DumpOpts{});
                ctx.event(std::to_string(fnv1a(d)));
            } catch (const std::exception&) {
                ctx.count("dump-threw");
            }
        }
        if (rng.chance(0.15))
            last.drop();
    }
    if (!sample.empty())
        ctx.sample(sample);
    last.drop();
}

void profile_selftest(RunCtx& ctx)
{
    // seam self-test: the same bytes through every transport and every chunking give the same document
    Rng rng{ctx.run_seed};
    GenCfg cfg = draw_cfg(rng);
    Model m = gen_model(rng, cfg);
    XmlKnobs kn;
    std::string xml = render_xml(m, kn, rng);
    std::string ref;
    int step = 0;
    for (int e : {E_XML_BUFFER, E_XML_FILE, E_XML_FD})
        for (uint32_t chunk : {0u, 1u, 7u, 4000u}) {
            CallSpec c;
            c.entry = e;
            c.bytes = xml;
            c.sched.mode = chunk ? 1 : 0;
            c.sched.chunk = chunk;
            Session s;
            CallResult r = ctx.call(s, c, step++);
            if (ctx.violations)
                return;
            std::string d = r.threw ? "threw" : dump_document(*s.doc, DumpOpts{});
            if (ref.empty())
                ref = d;
            else if (d != ref) {
                ctx.violation("HARNESS", "seam-selftest", "seam-selftest", std::string{"transport changes the document: "} + c.str() + " " + first_diff(ref, d));
                return;
            }
            if (e != E_XML_BUFFER && chunk == 1 && r.ctx.io_calls < xml.size())
                ctx.violation("HARNESS", "seam-selftest", "seam-not-used", "chunk=1 delivery made fewer callbacks than bytes: the seam is bypassed");
        }
    ctx.count("selftest-transports", 12);
}

}  // namespace sim
