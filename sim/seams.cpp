#include "seams.h"

#include <libxml/xmlIO.h>
#include <libxml/xmlmemory.h>

#include <algorithm>
#include <cerrno>
#include <cstdarg>
#include <cstdio>
#include <dirent.h>
#include <sys/stat.h>
#include <vector>
#include <cstdlib>
#include <cstring>
#include <new>
#include <dlfcn.h>
#include <fcntl.h>
#include <sys/mman.h>
#include <sys/syscall.h>
#include <unistd.h>

namespace sim {

OpCtx g_op;
SeamStats g_stats;
void (*g_on_ceiling)() = nullptr;
void (*g_on_exit_in_call)() = nullptr;

const char* io_fault_name(int f)
{
    switch (f) {
    case IO_NONE: return "none";
    case IO_EINTR: return "EINTR";
    case IO_EIO: return "EIO";
    case IO_EOF: return "EOF";
    case IO_ENOSPC: return "ENOSPC";
    case IO_CLOSEFAIL: return "CLOSEFAIL";
    }
    return "?";
}

std::string Sched::str() const
{
    std::string s = mode == 0 ? "whole" : (mode == 1 ? "chunk=" : "rnd<=");
    if (mode)
        s += std::to_string(chunk);
    if (fault_at) {
        s += " ";
        s += io_fault_name(fault_kind);
        s += "@" + std::to_string(fault_at);
    }
    return s;
}

// ---------------------------------------------------------------------------------------------
// allocator seam
// ---------------------------------------------------------------------------------------------
static int g_alloc_mode = AM_MALLOC;
static uint64_t g_alloc_total = 0;
static char* g_arena = nullptr;
static size_t g_arena_size = 0;
static size_t g_arena_lo = 0;  // next free from the bottom
static size_t g_arena_hi = 0;  // next free from the top (exclusive)
static bool g_in_seam = false;

static char* g_pool;
static void pool_init();

void alloc_set_mode(int mode)
{
    if (mode == AM_POOL) {
        pool_init();
        if (!g_pool)
            mode = AM_MALLOC;
        g_alloc_mode = mode;
        return;
    }
    if (mode != AM_MALLOC && g_arena == nullptr) {
        g_arena_size = (size_t)1 << 30;
        void* p = mmap(nullptr, g_arena_size, PROT_READ | PROT_WRITE, MAP_PRIVATE | MAP_ANONYMOUS | MAP_NORESERVE, -1, 0);
        if (p == MAP_FAILED) {
            g_arena_size = 0;
            mode = AM_MALLOC;
        } else {
            g_arena = (char*)p;
            g_arena_lo = 0;
            g_arena_hi = g_arena_size;
        }
    }
    g_alloc_mode = mode;
}
int alloc_get_mode() { return g_alloc_mode; }
uint64_t alloc_total() { return g_alloc_total; }

static inline bool in_arena(void* p) { return g_arena && (char*)p >= g_arena && (char*)p < g_arena + g_arena_size; }

// --- AM_POOL ------------------------------------------------------------------------------------
static size_t g_pool_size = 0, g_pool_top = 0;
static void* g_pool_free[258];  // by (header + payload) size / 16, up to 4096 bytes; [257]: unused
struct PoolLarge
{
    size_t total;
    void* head;
};
static PoolLarge g_pool_large[128];
static inline bool in_pool(void* p) { return g_pool && (char*)p >= g_pool && (char*)p < g_pool + g_pool_size; }
static void pool_init()
{
    if (g_pool)
        return;
    g_pool_size = (size_t)8 << 30;
    void* want = (void*)0x610000000000ull;  // fixed: must not depend on what the orchestrator has mapped at fork time
    void* p = mmap(want, g_pool_size, PROT_READ | PROT_WRITE, MAP_PRIVATE | MAP_ANONYMOUS | MAP_NORESERVE | MAP_FIXED_NOREPLACE, -1, 0);
    if (p == MAP_FAILED || p != want) {
        if (p != MAP_FAILED)
            munmap(p, g_pool_size);
        g_pool_size = 0;
        return;
    }
    g_pool = (char*)p;
}
static void* pool_alloc(size_t size)
{
    const size_t total = ((size + 15) & ~(size_t)15) + 16;
    void** slot = nullptr;
    if (total <= 4096)
        slot = &g_pool_free[total / 16];
    else
        for (auto& l : g_pool_large)
            if (l.total == total || l.total == 0) {
                l.total = total;
                slot = &l.head;
                break;
            }
    char* blk = nullptr;
    if (slot && *slot) {
        blk = (char*)*slot;
        *slot = *(void**)(blk + 16);  // the link lives in the payload of a free block
    } else {
        if (g_pool_top + total > g_pool_size)
            return nullptr;
        blk = g_pool + g_pool_top;
        g_pool_top += total;
    }
    *(size_t*)blk = total;
    return blk + 16;
}
static void pool_free(void* p)
{
    char* blk = (char*)p - 16;
    const size_t total = *(size_t*)blk;
    void** slot = nullptr;
    if (total <= 4096)
        slot = &g_pool_free[total / 16];
    else
        for (auto& l : g_pool_large)
            if (l.total == total) {
                slot = &l.head;
                break;
            }
    if (!slot)
        return;  // (an exotic size whose list is full: never reused)
    *(void**)(blk + 16) = *slot;
    *slot = blk;
}

static void* sim_alloc(size_t size, size_t align, bool nothrow)
{
    ++g_alloc_total;
    if (g_op.in_call && !g_in_seam) {
        ++g_op.allocs;
        g_op.alloc_bytes += size;
        if (g_op.fail_at > 0 && (int64_t)g_op.allocs == g_op.fail_at) {
            g_op.fail_fired = true;
            ++g_stats.alloc_fail_fired;
            if (nothrow)
                return nullptr;
            throw std::bad_alloc{};
        }
        if (g_op.ceiling && g_op.cost() > g_op.ceiling && g_on_ceiling) {
            g_on_ceiling();
        }
        // backstop for calls without a ceiling: no input of the simulator justifies 2 GiB of allocations in one call
        if (g_op.alloc_bytes > (2ull << 30) && g_on_ceiling)
            g_on_ceiling();
    }
    if (size == 0)
        size = 1;
    if (align < 16)
        align = 16;
    if ((g_alloc_mode == AM_ARENA_UP || g_alloc_mode == AM_ARENA_DOWN) && g_arena) {
        size_t need = (size + align - 1) & ~(align - 1);
        if (g_arena_hi - g_arena_lo > need + align + 4096) {
            g_stats.arena_bytes += need;
            if (g_alloc_mode == AM_ARENA_UP) {
                size_t at = (g_arena_lo + align - 1) & ~(align - 1);
                g_arena_lo = at + need;
                return g_arena + at;
            } else {
                size_t at = (g_arena_hi - need) & ~(align - 1);
                g_arena_hi = at;
                return g_arena + at;
            }
        }
    }
    if (g_alloc_mode == AM_POOL && g_pool && align <= 16) {
        if (void* q = pool_alloc(size))
            return q;
    }
    void* p;
    if (g_alloc_mode == AM_PAD)
        size += 48;
    if (align > 16) {
        if (posix_memalign(&p, align, size) != 0)
            p = nullptr;
    } else
        p = std::malloc(size);
    if (!p) {
        if (nothrow)
            return nullptr;
        throw std::bad_alloc{};
    }
    return p;
}

static void sim_free(void* p) noexcept
{
    if (!p || in_arena(p))
        return;
    if (in_pool(p)) {
        pool_free(p);
        return;
    }
    std::free(p);
}

// ---------------------------------------------------------------------------------------------
// byte sources
// ---------------------------------------------------------------------------------------------
struct Source
{
    std::string data;
    size_t pos{0};
    Sched sched;
    Rng rng{0};
    int ncalls{0};
    bool sticky_err{false};
    bool sticky_eof{false};
    bool fault_done{false};
};

/** returns bytes delivered, 0 = EOF, -1 = error with errno set */
static long source_read(Source& s, void* buf, size_t want)
{
    ++s.ncalls;
    if (g_op.in_call) {
        ++g_op.io_calls;
        if (g_op.ceiling && g_op.cost() > g_op.ceiling && g_on_ceiling)
            g_on_ceiling();
    }
    if (s.sticky_err) {
        errno = EIO;
        return -1;
    }
    if (s.sticky_eof)
        return 0;
    if (s.sched.fault_at && !s.fault_done && s.ncalls == s.sched.fault_at) {
        s.fault_done = true;
        g_op.io_fault_fired = s.sched.fault_kind;
        ++g_stats.fired[s.sched.fault_kind & 7];
        switch (s.sched.fault_kind) {
        case IO_EINTR: errno = EINTR; return -1;
        case IO_EIO:
            s.sticky_err = true;
            errno = EIO;
            return -1;
        case IO_EOF: s.sticky_eof = true; return 0;
        default: break;
        }
    }
    size_t n = std::min(want, s.data.size() - s.pos);
    if (s.sched.mode == 1 && s.sched.chunk)
        n = std::min<size_t>(n, s.sched.chunk);
    else if (s.sched.mode == 2 && s.sched.chunk)
        n = std::min<size_t>(n, 1 + s.rng.below(s.sched.chunk));
    if (n) {
        std::memcpy(buf, s.data.data() + s.pos, n);
        s.pos += n;
        g_op.io_bytes += n;
    }
    return (long)n;
}

static std::map<std::string, std::string>* g_store;
static Sched g_next_file_sched;
static Sched g_next_write_sched;
static std::map<std::string, Sink>* g_sinks;

void store_put(const std::string& name, const std::string& bytes)
{
    if (!g_store)
        g_store = new std::map<std::string, std::string>;
    (*g_store)[name] = bytes;
}
const std::string* store_get(const std::string& name)
{
    if (!g_store)
        return nullptr;
    auto it = g_store->find(name);
    return it == g_store->end() ? nullptr : &it->second;
}
void set_next_file_sched(const Sched& s) { g_next_file_sched = s; }
void set_next_write_sched(const Sched& s) { g_next_write_sched = s; }

Sink* sink_get(const std::string& name)
{
    if (!g_sinks)
        return nullptr;
    auto it = g_sinks->find(name);
    return it == g_sinks->end() ? nullptr : &it->second;
}
void sink_reset(const std::string& name)
{
    if (g_sinks)
        g_sinks->erase(name);
}

// --- the simulated input file of parse_XML_file ---
static std::string g_sim_dir, g_sim_in_path;
const std::string& sim_dir()
{
    if (g_sim_dir.empty()) {
        const char* d = getenv("UTAPSIM_DIR");
        g_sim_dir = d ? d : "/tmp/utapsim.unset";
    }
    return g_sim_dir;
}
void sim_dir_create()
{
    char buf[96];
    const char* base = access("/dev/shm", W_OK) == 0 ? "/dev/shm" : "/tmp";
    snprintf(buf, sizeof buf, "%s/utapsim.%07d", base, (int)getpid());
    ::mkdir(buf, 0700);
    setenv("UTAPSIM_DIR", buf, 1);
    g_sim_dir = buf;
}
void sim_dir_remove()
{
    if (g_sim_dir.empty())
        return;
    if (DIR* d = opendir(g_sim_dir.c_str())) {
        while (dirent* e = readdir(d)) {
            if (e->d_name[0] == '.' && (e->d_name[1] == 0 || (e->d_name[1] == '.' && e->d_name[2] == 0)))
                continue;
            ::unlink((g_sim_dir + "/" + e->d_name).c_str());
        }
        closedir(d);
    }
    ::rmdir(g_sim_dir.c_str());
}
const std::string& sim_in_path()
{
    if (g_sim_in_path.empty()) {
        char buf[32];
        snprintf(buf, sizeof buf, "/in.%07d.xml", (int)getpid());  // fixed width: the same allocation sizes in every process
        g_sim_in_path = sim_dir() + buf;
    }
    return g_sim_in_path;
}
void sim_in_publish(const std::string& bytes)
{
    store_put("in.xml", bytes);
    int fd = (int)syscall(SYS_openat, AT_FDCWD, sim_in_path().c_str(), O_WRONLY | O_CREAT | O_TRUNC, 0600);
    if (fd >= 0) {
        size_t off = 0;
        while (off < bytes.size()) {
            long w = syscall(SYS_write, fd, bytes.data() + off, bytes.size() - off);
            if (w <= 0)
                break;
            off += (size_t)w;
        }
        syscall(SYS_close, fd);
    }
}
static int in_match(const char* uri) { return uri && !g_sim_in_path.empty() && g_sim_in_path == uri; }
static void* in_open(const char* uri)
{
    (void)uri;
    g_in_seam = true;
    const std::string* bytes = store_get("in.xml");
    Source* s = nullptr;
    if (bytes) {
        s = new Source;
        s->data = *bytes;
        s->sched = g_next_file_sched;
        s->rng = Rng{g_next_file_sched.seed};
    }
    g_in_seam = false;
    return s;
}
static int in_read(void* ctx, char* buf, int len)
{
    ++g_stats.reads_file;
    return (int)source_read(*(Source*)ctx, buf, (size_t)len);
}
static int in_close(void* ctx)
{
    g_in_seam = true;
    delete (Source*)ctx;
    g_in_seam = false;
    return 0;
}

// --- sim:// output for write_XML_file ---
struct SinkCtx
{
    Sink* sink;
    Sched sched;
    Rng rng{0};
};
static int out_match(const char* uri) { return uri && std::strncmp(uri, "sim://", 6) == 0; }
static void* out_open(const char* uri)
{
    g_in_seam = true;
    if (!g_sinks)
        g_sinks = new std::map<std::string, Sink>;
    auto& sink = (*g_sinks)[uri + 6];
    sink = Sink{};
    auto* c = new SinkCtx{&sink, g_next_write_sched, Rng{g_next_write_sched.seed}};
    g_in_seam = false;
    return c;
}
static int out_write(void* ctx, const char* buf, int len)
{
    auto* c = (SinkCtx*)ctx;
    ++g_stats.writes;
    ++c->sink->nwrites;
    if (g_op.in_call) {
        ++g_op.io_calls;
        if (g_op.ceiling && g_op.cost() > g_op.ceiling && g_on_ceiling)
            g_on_ceiling();
    }
    if (c->sink->failed) {
        errno = EIO;
        return -1;
    }
    if (c->sched.fault_at && c->sink->nwrites == c->sched.fault_at &&
        (c->sched.fault_kind == IO_ENOSPC || c->sched.fault_kind == IO_EIO)) {
        c->sink->failed = true;
        g_op.io_fault_fired = c->sched.fault_kind;
        ++g_stats.fired[c->sched.fault_kind & 7];
        errno = c->sched.fault_kind == IO_ENOSPC ? ENOSPC : EIO;
        return -1;
    }
    int n = len;
    if (c->sched.mode == 1 && c->sched.chunk)
        n = std::min<int>(n, (int)c->sched.chunk);
    else if (c->sched.mode == 2 && c->sched.chunk)
        n = std::min<int>(n, 1 + (int)c->rng.below(c->sched.chunk));
    g_in_seam = true;
    c->sink->data.append(buf, (size_t)n);
    g_in_seam = false;
    g_op.io_bytes += n;
    return n;
}
static int out_close(void* ctx)
{
    auto* c = (SinkCtx*)ctx;
    int rc = 0;
    c->sink->closed = true;
    if (c->sched.fault_kind == IO_CLOSEFAIL && c->sched.fault_at) {
        g_op.io_fault_fired = IO_CLOSEFAIL;
        ++g_stats.fired[IO_CLOSEFAIL];
        c->sink->failed = true;
        errno = EIO;
        rc = -1;
    }
    g_in_seam = true;
    delete c;
    g_in_seam = false;
    return rc;
}

// --- simulated descriptor for parse_XML_fd ---
static int g_simfd = -1;
static Source* g_simfd_src = nullptr;

int open_sim_fd(const std::string& bytes, const Sched& sched)
{
    int fd = ::open("/dev/null", O_RDONLY);
    if (fd < 0)
        return -1;
    g_simfd_src = new Source;
    g_simfd_src->data = bytes;
    g_simfd_src->sched = sched;
    g_simfd_src->rng = Rng{sched.seed};
    g_simfd = fd;
    return fd;
}
void close_sim_fd(int fd)
{
    if (fd == g_simfd) {
        g_simfd = -1;
        delete g_simfd_src;
        g_simfd_src = nullptr;
    }
    ::close(fd);
}

// --- descriptors the library opens itself ---
static int g_fd_budget = -1;
static std::vector<int>* g_lib_fds = nullptr;  // opened through the interposed open during calls
void fd_budget_set(int budget) { g_fd_budget = budget; }
int fd_leaked()
{
    int n = 0;
    if (g_lib_fds)
        for (int fd : *g_lib_fds)
            if (fcntl(fd, F_GETFD) != -1)
                ++n;
    return n;
}
void sim_in_retire()
{
    syscall(SYS_unlink, sim_in_path().c_str());
    // the source of a descriptor the library opened on the simulated file is gone with the call; the descriptor itself,
    // if the library left it open, stays open (and counts against the budget) like any leaked descriptor
    if (g_simfd >= 0 && g_lib_fds && std::find(g_lib_fds->begin(), g_lib_fds->end(), g_simfd) != g_lib_fds->end()) {
        g_simfd = -1;
        delete g_simfd_src;
        g_simfd_src = nullptr;
    }
}
/** open(2) seen during a library call: the simulated input file becomes a simulated descriptor */
static int lib_open(const char* path, int flags, mode_t mode)
{
    if (g_op.in_call && !g_in_seam && path && !g_sim_in_path.empty() && g_sim_in_path == path && (flags & O_ACCMODE) == O_RDONLY) {
        g_in_seam = true;
        int fd = -1;
        if (g_fd_budget >= 0 && fd_leaked() >= g_fd_budget) {
            errno = EMFILE;
            ++g_op.emfile;
        } else if (const std::string* bytes = store_get("in.xml")) {
            if (g_simfd >= 0) {  // an earlier descriptor on the file is still registered: it keeps its source no longer
                g_simfd = -1;
                delete g_simfd_src;
                g_simfd_src = nullptr;
            }
            fd = open_sim_fd(*bytes, g_next_file_sched);
            ++g_op.lib_opens;
            if (fd >= 0) {
                if (!g_lib_fds)
                    g_lib_fds = new std::vector<int>;
                if (std::find(g_lib_fds->begin(), g_lib_fds->end(), fd) == g_lib_fds->end())
                    g_lib_fds->push_back(fd);
            }
        } else
            errno = ENOENT;
        g_in_seam = false;
        return fd;
    }
    return (int)syscall(SYS_openat, AT_FDCWD, path, flags, mode);
}

// --- FILE* via fopencookie ---
static ssize_t cookie_read(void* cookie, char* buf, size_t size)
{
    ++g_stats.reads_cookie;
    return (ssize_t)source_read(*(Source*)cookie, buf, size);
}
static int cookie_close(void* cookie)
{
    delete (Source*)cookie;
    return 0;
}
FILE* open_sim_FILE(const std::string& bytes, const Sched& sched)
{
    auto* s = new Source;
    s->data = bytes;
    s->sched = sched;
    s->rng = Rng{sched.seed};
    cookie_io_functions_t io{};
    io.read = cookie_read;
    io.close = cookie_close;
    FILE* f = fopencookie(s, "r", io);
    if (!f)
        delete s;
    return f;
}

// ---------------------------------------------------------------------------------------------
void begin_call(int op_index, int64_t alloc_fail_at, uint64_t ceiling)
{
    g_op = OpCtx{};
    g_op.op_index = op_index;
    g_op.fail_at = alloc_fail_at;
    g_op.ceiling = ceiling;
    g_op.in_call = true;
}
void end_call() { g_op.in_call = false; }

static void exit_hook()
{
    if (g_op.in_call && g_on_exit_in_call)
        g_on_exit_in_call();
}

// libxml2's allocator: counted per call (entity expansion and buffer growth happen here, not in operator new) and
// subject to the same cost ceiling; never failed (a failure inside libxml2 would test libxml2, not libutap)
static void xml_count(size_t n)
{
    if (g_op.in_call && !g_in_seam) {
        ++g_op.xml_allocs;
        g_op.xml_bytes += n;
        if (g_op.ceiling && g_op.cost() > g_op.ceiling && g_on_ceiling)
            g_on_ceiling();
        // backstop for calls that run without a ceiling (environment-fault families): no input of the simulator is
        // larger than a few MB, so a GiB of libxml2 memory inside one call is out of all proportion in any case
        if (g_op.xml_bytes > (1ull << 30) && g_on_ceiling)
            g_on_ceiling();
    }
}
static void* xml_malloc(size_t n)
{
    xml_count(n);
    return std::malloc(n);
}
static void* xml_realloc(void* p, size_t n)
{
    xml_count(n);
    return std::realloc(p, n);
}
static char* xml_strdup(const char* s)
{
    size_t n = strlen(s) + 1;
    xml_count(n);
    char* r = (char*)std::malloc(n);
    if (r)
        memcpy(r, s, n);
    return r;
}

void seams_init()
{
    static bool done = false;
    if (done)
        return;
    done = true;
    xmlMemSetup(std::free, xml_malloc, xml_realloc, xml_strdup);
    xmlRegisterDefaultInputCallbacks();
    xmlRegisterInputCallbacks(in_match, in_open, in_read, in_close);
    xmlRegisterDefaultOutputCallbacks();
    xmlRegisterOutputCallbacks(out_match, out_open, out_write, out_close);
    std::atexit(exit_hook);
}

}  // namespace sim

// ---------------------------------------------------------------------------------------------
// global replacements (link-time seams)
// ---------------------------------------------------------------------------------------------
void* operator new(std::size_t n) { return sim::sim_alloc(n, 16, false); }
void* operator new[](std::size_t n) { return sim::sim_alloc(n, 16, false); }
void* operator new(std::size_t n, const std::nothrow_t&) noexcept { return sim::sim_alloc(n, 16, true); }
void* operator new[](std::size_t n, const std::nothrow_t&) noexcept { return sim::sim_alloc(n, 16, true); }
void* operator new(std::size_t n, std::align_val_t a) { return sim::sim_alloc(n, (size_t)a, false); }
void* operator new[](std::size_t n, std::align_val_t a) { return sim::sim_alloc(n, (size_t)a, false); }
void operator delete(void* p) noexcept { sim::sim_free(p); }
void operator delete[](void* p) noexcept { sim::sim_free(p); }
void operator delete(void* p, std::size_t) noexcept { sim::sim_free(p); }
void operator delete[](void* p, std::size_t) noexcept { sim::sim_free(p); }
void operator delete(void* p, std::align_val_t) noexcept { sim::sim_free(p); }
void operator delete[](void* p, std::align_val_t) noexcept { sim::sim_free(p); }
void operator delete(void* p, std::size_t, std::align_val_t) noexcept { sim::sim_free(p); }
void operator delete[](void* p, std::size_t, std::align_val_t) noexcept { sim::sim_free(p); }
void operator delete(void* p, const std::nothrow_t&) noexcept { sim::sim_free(p); }
void operator delete[](void* p, const std::nothrow_t&) noexcept { sim::sim_free(p); }

extern "C" {

// open(2): the simulated input file, when the library opens it by itself, becomes a simulated descriptor.
int open(const char* path, int flags, ...)
{
    mode_t mode = 0;
    if (flags & (O_CREAT | O_TMPFILE)) {
        va_list ap;
        va_start(ap, flags);
        mode = (mode_t)va_arg(ap, int);
        va_end(ap);
    }
    return sim::lib_open(path, flags, mode);
}
int open64(const char* path, int flags, ...)
{
    mode_t mode = 0;
    if (flags & (O_CREAT | O_TMPFILE)) {
        va_list ap;
        va_start(ap, flags);
        mode = (mode_t)va_arg(ap, int);
        va_end(ap);
    }
    return sim::lib_open(path, flags | O_LARGEFILE, mode);
}

// read(2): descriptors registered as simulated are served from SimStore, everything else is forwarded.
ssize_t read(int fd, void* buf, size_t n)
{
    if (fd >= 0 && fd == sim::g_simfd && sim::g_simfd_src) {
        ++sim::g_stats.reads_fd;
        return (ssize_t)sim::source_read(*sim::g_simfd_src, buf, n);
    }
    return (ssize_t)syscall(SYS_read, fd, buf, n);
}

// dlopen: an `import "..."` declaration must never load a shared object into the simulator.
// The real dlopen is asked for a path that cannot exist so that dlerror() is set as the library expects.
void* dlopen(const char* file, int mode)
{
    using fn_t = void* (*)(const char*, int);
    static fn_t real = (fn_t)dlsym(RTLD_NEXT, "dlopen");
    if (file == nullptr)
        return real ? real(file, mode) : nullptr;
    if (getenv("UTAPSIM_TRACE_DLOPEN"))
        fprintf(stderr, "dlopen(%s) in_call=%d\n", file, (int)sim::g_op.in_call);
    ++sim::g_op.dlopen_refused;
    ++sim::g_stats.dlopen_refused;
    // the refusal names the path that was asked for, so that a diagnostic built from dlerror() shows where the library
    // looked (relative to the working directory of the call, for instance)
    // (no allocation here: an injected allocation failure must only ever hit the library)
    char refused[4200];
    snprintf(refused, sizeof refused, "/nonexistent/utapsim-refuses-dlopen%s%.4000s", file[0] == '/' ? "" : "/", file);
    return real ? real(refused, mode) : nullptr;
}
}
