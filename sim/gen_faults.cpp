// Content faults at three granularities: token (inside one text block), structure (XML elements and
// attributes), byte.
#include "gen.h"

#include <algorithm>
#include <cstring>
#include <set>
#include <stdexcept>

namespace sim {

// ---------------------------------------------------------------------------------------------
// tokenizer (mirrors the token classes of the UPPAAL lexer closely enough to place faults)
// ---------------------------------------------------------------------------------------------
std::vector<Token> tokenize(const std::string& s)
{
    std::vector<Token> v;
    size_t i = 0, n = s.size();
    unsigned line = 1;
    size_t line_start = 0;
    auto isid0 = [](unsigned char c) { return std::isalpha(c) || c == '_'; };
    auto isid = [](unsigned char c) { return std::isalnum(c) || c == '_' || c == '$' || c == '#'; };
    while (i < n) {
        unsigned char c = s[i];
        if (c == '\n') {
            ++line;
            ++i;
            line_start = i;
            continue;
        }
        if (c == ' ' || c == '\t' || c == '\r') {
            ++i;
            continue;
        }
        if (c == '/' && i + 1 < n && s[i + 1] == '/') {
            while (i < n && s[i] != '\n')
                ++i;
            continue;
        }
        if (c == '/' && i + 1 < n && s[i + 1] == '*') {
            i += 2;
            while (i < n && !(s[i] == '*' && i + 1 < n && s[i + 1] == '/')) {
                if (s[i] == '\n') {
                    ++line;
                    line_start = i + 1;
                }
                ++i;
            }
            i = std::min(n, i + 2);
            continue;
        }
        if (c == '\\') {
            size_t j = i + 1;
            while (j < n && (s[j] == ' ' || s[j] == '\t'))
                ++j;
            if (j < n && s[j] == '\n') {
                i = j;  // the newline is handled by the loop
                continue;
            }
        }
        Token t;
        t.off = i;
        t.line = line;
        t.col = (unsigned)(i - line_start);
        if (isid0(c)) {
            size_t j = i + 1;
            while (j < n && isid(s[j]))
                ++j;
            t.len = j - i;
            t.cls = 'i';
        } else if (std::isdigit(c)) {
            size_t j = i + 1;
            while (j < n && (std::isdigit((unsigned char)s[j]) || s[j] == '.'))
                ++j;
            t.len = j - i;
            t.cls = 'n';
        } else {
            static const char* ops[] = {"<<=", ">>=", "-u->", "-->", "<=", ">=", "==", "!=", "&&", "||", "->", ":=", "+=",
                                        "-=",  "*=",  "/=",   "%=",  "|=", "&=", "^=", "++", "--", "<<", ">>", "<?", ">?"};
            t.len = 1;
            for (auto* op : ops) {
                size_t l = std::strlen(op);
                if (s.compare(i, l, op) == 0) {
                    t.len = l;
                    break;
                }
            }
            t.cls = 'o';
        }
        v.push_back(t);
        i += t.len;
    }
    return v;
}

const char* token_fault_name(int f)
{
    switch (f) {
    case TF_UNDECLARED: return "undeclared-identifier";
    case TF_DROP_OPERAND: return "dropped-operand";
    case TF_EXTRA_PAREN: return "extra-paren";
    case TF_STRAY_BRACKET: return "stray-bracket";
    case TF_STRAY_AT: return "stray-at";
    case TF_OPEN_COMMENT: return "unterminated-comment";
    case TF_DROP_TOKEN: return "drop-token";
    case TF_DUP_TOKEN: return "dup-token";
    case TF_TRUNCATE: return "truncate";
    case TF_SIDE_EFFECT: return "side-effect";
    case TF_CHAN_ARITH: return "channel-arithmetic";
    case TF_BAD_TERNARY: return "bad-conditional";
    case TF_OVERFLOW_LITERAL: return "overflow-literal";
    case TF_CHAN_OPERAND: return "channel-operand";
    case TF_CHAN_TO_INT: return "channel-prefix-on-int";
    }
    return "?";
}

static bool is_reserved(const std::string& w)
{
    static const std::set<std::string> kw{
        "int",    "bool",   "clock",     "chan",   "const",  "forall", "exists",   "sum",    "true",   "false",  "return",
        "if",     "else",   "while",     "for",    "do",     "void",   "typedef",  "struct", "broadcast", "urgent", "and",
        "or",     "not",    "imply",     "meta",   "select", "break",  "continue", "switch", "case",   "default", "double",
        "hybrid", "system", "process",   "state",  "init",   "trans",  "guard",    "sync",   "assign", "commit", "priority",
        "scalar", "string", "deadlock",  "xor",    "min",    "max",    "progress", "gantt",  "rate",   "before_update",
        "after_update", "assert", "probability", "branchpoint", "import", "A", "E", "U", "W", "R", "M", "Pr", "simulate",
        "spawn", "exit", "numof", "foreach", "dynamic", "control", "strategy", "inf", "sup", "bounds"};
    return kw.count(w) > 0;
}

FaultResult apply_token_fault(const std::string& text, const std::vector<Token>& toks, size_t ti, int fault, BlockRef::Kind kind,
                              const std::string& chan)
{
    FaultResult r;
    auto tok = [&](size_t i) { return text.substr(toks[i].off, toks[i].len); };
    auto before = [&](size_t i) { return text.substr(0, toks[i].off); };
    auto from = [&](size_t i) { return text.substr(toks[i].off); };
    auto after = [&](size_t i) { return text.substr(toks[i].off + toks[i].len); };
    const bool decl_like = kind == BlockRef::GDECL || kind == BlockRef::TDECL || kind == BlockRef::PARAM ||
                           kind == BlockRef::SELECT || kind == BlockRef::SYSTEM;
    if (fault == TF_SIDE_EFFECT || fault == TF_CHAN_ARITH || fault == TF_BAD_TERNARY) {
        // appended once per block: only valid for ti == last token
        if (toks.empty() || ti + 1 != toks.size())
            return r;
        std::string add = fault == TF_SIDE_EFFECT ? "gi0++ > 0" : (fault == TF_CHAN_ARITH ? chan + " + 1 > 0" : "(gi0 > 0 ? " + chan + " : 1) > 0");
        switch (kind) {
        case BlockRef::GUARD:
        case BlockRef::INV: r.text = text + " && " + add; break;
        case BlockRef::PROB:
            // (a weight that is just a channel name fails as a whole: "cannot be used as a probability")
            r.text = fault == TF_CHAN_ARITH ? chan : text + " + " + (fault == TF_SIDE_EFFECT ? std::string{"gi0++"} : "(gi0 > 0 ? " + chan + " : 1)");
            if (text.find(':') != std::string::npos)
                return r;
            break;
        case BlockRef::ASSIGN:
            if (fault == TF_SIDE_EFFECT)
                return r;
            r.text = text + ", gi0 = " + (fault == TF_CHAN_ARITH ? chan + " + 1" : "(gi0 > 0 ? " + chan + " : 1)");
            break;
        default: return r;
        }
        // a trailing line comment would swallow the addition
        {
            size_t last_nl = text.rfind('\n');
            size_t lc = text.rfind("//");
            if (lc != std::string::npos && (last_nl == std::string::npos || lc > last_nl))
                return FaultResult{};
            if (chan.empty() && fault != TF_SIDE_EFFECT)
                return FaultResult{};
        }
        r.applied = true;
        r.guaranteed_error = true;
        return r;
    }
    if (ti >= toks.size())
        return r;
    const Token& t = toks[ti];
    switch (fault) {
    case TF_UNDECLARED: {
        if (t.cls != 'i' || is_reserved(tok(ti)))
            return r;
        if (ti > 0 && tok(ti - 1) == ".")
            return r;
        bool binder = ti + 1 < toks.size() && tok(ti + 1) == ":";
        r.ident = "zzundecl" + std::to_string(ti);
        r.text = before(ti) + r.ident + after(ti);
        r.line = t.line;
        r.scol = t.col;
        r.ecol = t.col + (unsigned)r.ident.size();
        r.applied = true;
        // in declaring blocks the identifier may be the declared name or a type name; no guarantee there
        r.guaranteed_error = !decl_like && !binder;
        r.type_position = ti > 0 && tok(ti - 1) == ":";
        // a name in the process list of the system line is a use, not a declaration: "$No_such_process" is guaranteed
        if (kind == BlockRef::SYSTEM) {
            bool after_system = false;
            for (size_t j = 0; j < ti; ++j)
                if (tok(j) == "system")
                    after_system = true;
            if (after_system)
                r.guaranteed_error = true;
        }
        break;
    }
    case TF_CHAN_TO_INT: {
        if (tok(ti) != "chan" || ti == 0 || (tok(ti - 1) != "urgent" && tok(ti - 1) != "broadcast"))
            return r;
        r.text = before(ti) + "int" + after(ti);
        r.applied = true;
        r.guaranteed_error = true;  // (the one fault that is ill-formed by construction inside a declaring block)
        break;
    }
    case TF_CHAN_OPERAND: {
        if (t.cls != 'n' || chan.empty() || decl_like)
            return r;
        // not the bound of a range or the size of an array type, and not after ':' (probability fractions, selects)
        if (ti > 0 && (tok(ti - 1) == "[" || tok(ti - 1) == "," || tok(ti - 1) == ":") && ti + 1 < toks.size() && (tok(ti + 1) == "]" || tok(ti + 1) == ","))
            return r;
        r.text = before(ti) + chan + after(ti);
        r.applied = true;
        r.guaranteed_error = false;  // (a channel is a legal operand in a few places, e.g. a channel array index is not)
        // ... but as an argument of spawn for a "const int" parameter it is a type error for sure
        for (size_t j = ti; j-- > 0;) {
            if (tok(j) == ")")
                break;
            if (tok(j) == "spawn") {
                r.guaranteed_error = true;
                break;
            }
        }
        break;
    }
    case TF_OVERFLOW_LITERAL: {
        if (t.cls != 'n')
            return r;
        // (2147483648 is special-cased by the lexer for "-2147483648")
        static const char* big[] = {"2147483649", "99999999999", "18446744073709551616", "4294967297"};
        r.text = before(ti) + big[ti % 4] + after(ti);
        r.applied = true;
        r.guaranteed_error = !decl_like;
        break;
    }
    case TF_DROP_OPERAND: {
        static const std::set<std::string> binops{"*", "/", "%", "<=", ">=", "==", "!=", "&&", "||", "^", "|", "<<", ">>", "<?", ">?"};
        if (t.cls != 'o' || !binops.count(tok(ti)) || ti + 1 >= toks.size())
            return r;
        if (toks[ti + 1].cls == 'o')
            return r;
        r.text = before(ti + 1) + after(ti + 1);
        r.applied = true;
        if (ti + 2 >= toks.size())
            r.guaranteed_error = true;
        else {
            static const std::set<std::string> closers{")", "]", ",", ";", ":", "?", "*", "/", "%", "<=", ">=", "==", "!=", "&&", "||", "^", "|", "<<", ">>", "<?", ">?"};
            r.guaranteed_error = closers.count(tok(ti + 2)) > 0;
        }
        break;
    }
    case TF_EXTRA_PAREN:
        r.text = before(ti) + "( " + from(ti);
        r.applied = true;
        r.guaranteed_error = true;
        break;
    case TF_STRAY_BRACKET:
        r.text = before(ti) + "] " + from(ti);
        r.applied = true;
        r.guaranteed_error = true;
        break;
    case TF_STRAY_AT:
        r.text = before(ti) + "@ " + from(ti);
        r.applied = true;
        r.guaranteed_error = true;
        break;
    case TF_OPEN_COMMENT:
        r.text = before(ti) + "/* " + from(ti);
        r.applied = true;
        r.guaranteed_error = from(ti).find("*/") == std::string::npos;
        break;
    case TF_DROP_TOKEN:
        r.text = before(ti) + after(ti);
        r.applied = true;
        break;
    case TF_DUP_TOKEN:
        r.text = before(ti) + tok(ti) + " " + from(ti);
        r.applied = true;
        break;
    case TF_TRUNCATE:
        r.text = text.substr(0, t.off + t.len);
        r.applied = ti + 1 < toks.size();
        break;
    default: return r;
    }
    if (r.applied && r.text.find_first_not_of(" \t\r\n") == std::string::npos)
        r.applied = false;  // an empty block would change the document's structure, not one block's content
    return r;
}

// ---------------------------------------------------------------------------------------------
// byte faults
// ---------------------------------------------------------------------------------------------
const char* byte_fault_name(int f)
{
    switch (f) {
    case BF_TRUNCATE: return "truncate";
    case BF_FLIP: return "bitflip";
    case BF_ZERO_RANGE: return "zero-range";
    case BF_DUP_RANGE: return "dup-range";
    case BF_DROP_RANGE: return "drop-range";
    }
    return "?";
}

std::string apply_byte_fault(const std::string& b, int fault, Rng& rng, std::string& desc)
{
    if (b.empty())
        return b;
    size_t at = rng.below((uint32_t)b.size());
    size_t len = 1 + rng.below(rng.chance(0.8) ? 16 : 400);
    len = std::min(len, b.size() - at);
    std::string r = b;
    switch (fault) {
    case BF_TRUNCATE: r = b.substr(0, at); break;
    case BF_FLIP: r[at] = (char)(r[at] ^ (1 << rng.below(8))); break;
    case BF_ZERO_RANGE:
        for (size_t i = 0; i < len; ++i)
            r[at + i] = ' ';  // a NUL would end the C string entry points early; blanks model a lost sector in text
        break;
    case BF_DUP_RANGE: r = b.substr(0, at + len) + b.substr(at); break;
    case BF_DROP_RANGE: r = b.substr(0, at) + b.substr(at + len); break;
    }
    desc = std::string{byte_fault_name(fault)} + "@" + std::to_string(at) + "+" + std::to_string(len);
    return r;
}

// ---------------------------------------------------------------------------------------------
// structure faults on XML text
// ---------------------------------------------------------------------------------------------
const char* struct_fault_name(int f)
{
    switch (f) {
    case SF_DROP_ATTR: return "drop-attr";
    case SF_EMPTY_ATTR: return "empty-attr";
    case SF_DUP_ATTR_VALUE: return "dup-attr-value";
    case SF_DROP_ELEM: return "drop-elem";
    case SF_DUP_ELEM: return "dup-elem";
    case SF_EMPTY_ELEM: return "empty-elem";
    case SF_SWAP_SIBLINGS: return "swap-siblings";
    case SF_EMPTY_TEXT: return "empty-text";
    case SF_RENAME_TAG: return "rename-tag";
    case SF_ODD_TEXT: return "odd-text";
    }
    return "?";
}

namespace {
struct Attr
{
    size_t begin, end;       // whole ` name="value"` including leading blank
    size_t vbegin, vend;     // value without quotes
    std::string name;
};
struct Elem
{
    size_t begin;      // '<'
    size_t open_end;   // one past '>' of the start tag
    size_t end;        // one past the end of the whole element
    bool selfclose;
    std::string name;
    std::vector<Attr> attrs;
};

std::vector<Elem> scan(const std::string& x)
{
    std::vector<Elem> v;
    size_t i = 0, n = x.size();
    while (i < n) {
        size_t lt = x.find('<', i);
        if (lt == std::string::npos)
            break;
        if (x.compare(lt, 4, "<!--") == 0) {
            size_t e = x.find("-->", lt);
            i = e == std::string::npos ? n : e + 3;
            continue;
        }
        if (x.compare(lt, 9, "<![CDATA[") == 0) {
            size_t e = x.find("]]>", lt);
            i = e == std::string::npos ? n : e + 3;
            continue;
        }
        if (lt + 1 >= n || !(std::isalpha((unsigned char)x[lt + 1]))) {
            i = lt + 1;
            continue;
        }
        Elem e;
        e.begin = lt;
        size_t j = lt + 1;
        while (j < n && (std::isalnum((unsigned char)x[j]) || x[j] == '_'))
            ++j;
        e.name = x.substr(lt + 1, j - lt - 1);
        // attributes
        while (j < n && x[j] != '>' && !(x[j] == '/' && j + 1 < n && x[j + 1] == '>')) {
            size_t ab = j;
            while (j < n && std::isspace((unsigned char)x[j]))
                ++j;
            size_t nb = j;
            while (j < n && (std::isalnum((unsigned char)x[j]) || x[j] == '_' || x[j] == ':'))
                ++j;
            if (j == nb) {
                if (j < n && x[j] != '>' && !(x[j] == '/' && j + 1 < n && x[j + 1] == '>'))
                    ++j;
                continue;
            }
            Attr a;
            a.begin = ab;
            a.name = x.substr(nb, j - nb);
            while (j < n && std::isspace((unsigned char)x[j]))
                ++j;
            if (j < n && x[j] == '=') {
                ++j;
                while (j < n && std::isspace((unsigned char)x[j]))
                    ++j;
                if (j < n && (x[j] == '"' || x[j] == '\'')) {
                    char qc = x[j];
                    a.vbegin = j + 1;
                    size_t qe = x.find(qc, j + 1);
                    if (qe == std::string::npos)
                        qe = n - 1;
                    a.vend = qe;
                    j = qe + 1;
                    a.end = j;
                    e.attrs.push_back(a);
                }
            }
        }
        if (j >= n)
            break;
        e.selfclose = x[j] == '/';
        e.open_end = j + (e.selfclose ? 2 : 1);
        e.end = e.open_end;
        v.push_back(e);
        i = e.open_end;
    }
    // element extents: match end tags with a stack
    {
        std::vector<size_t> stack;
        size_t k = 0;  // index into v in document order
        size_t pos = 0;
        while (pos < n) {
            size_t lt = x.find('<', pos);
            if (lt == std::string::npos)
                break;
            if (x.compare(lt, 4, "<!--") == 0) {
                size_t e = x.find("-->", lt);
                pos = e == std::string::npos ? n : e + 3;
                continue;
            }
            if (x.compare(lt, 9, "<![CDATA[") == 0) {
                size_t e = x.find("]]>", lt);
                pos = e == std::string::npos ? n : e + 3;
                continue;
            }
            if (lt + 1 < n && x[lt + 1] == '/') {
                size_t gt = x.find('>', lt);
                if (gt == std::string::npos)
                    break;
                std::string nm = x.substr(lt + 2, gt - lt - 2);
                while (!nm.empty() && std::isspace((unsigned char)nm.back()))
                    nm.pop_back();
                // pop until matching name
                for (size_t s = stack.size(); s > 0; --s)
                    if (v[stack[s - 1]].name == nm) {
                        v[stack[s - 1]].end = gt + 1;
                        stack.resize(s - 1);
                        break;
                    }
                pos = gt + 1;
                continue;
            }
            if (k < v.size() && v[k].begin == lt) {
                if (!v[k].selfclose)
                    stack.push_back(k);
                pos = v[k].open_end;
                ++k;
                continue;
            }
            pos = lt + 1;
        }
    }
    return v;
}
}  // namespace

static std::string apply_struct_fault_unchecked(const std::string& x, int fault, Rng& rng, std::string& desc);

std::string apply_struct_fault(const std::string& x, int fault, Rng& rng, std::string& desc)
{
    // the tolerant scanner works on damaged input too; an out-of-range cut simply means "fault not applicable"
    try {
        return apply_struct_fault_unchecked(x, fault, rng, desc);
    } catch (const std::out_of_range&) {
        desc = std::string{struct_fault_name(fault)} + " (not applicable)";
        return x;
    }
}

static std::string apply_struct_fault_unchecked(const std::string& x, int fault, Rng& rng, std::string& desc)
{
    auto elems = scan(x);
    if (elems.empty())
        return x;
    desc = struct_fault_name(fault);
    auto pick_elem = [&](auto pred) -> const Elem* {
        std::vector<const Elem*> c;
        for (auto& e : elems)
            if (pred(e))
                c.push_back(&e);
        return c.empty() ? nullptr : c[rng.below((uint32_t)c.size())];
    };
    auto interesting_attr = [](const Attr& a) { return a.name != "x" && a.name != "y" && a.name != "color"; };
    switch (fault) {
    case SF_DROP_ATTR:
    case SF_EMPTY_ATTR:
    case SF_DUP_ATTR_VALUE: {
        auto* e = pick_elem([&](const Elem& el) {
            for (auto& a : el.attrs)
                if (interesting_attr(a))
                    return true;
            return false;
        });
        if (!e)
            return x;
        std::vector<const Attr*> as;
        for (auto& a : e->attrs)
            if (interesting_attr(a))
                as.push_back(&a);
        auto* a = as[rng.below((uint32_t)as.size())];
        desc += " " + e->name + "/@" + a->name + " at " + std::to_string(e->begin);
        if (fault == SF_DROP_ATTR)
            return x.substr(0, a->begin) + x.substr(a->end);
        if (fault == SF_EMPTY_ATTR)
            return x.substr(0, a->vbegin) + (rng.chance(0.5) ? "" : " ") + x.substr(a->vend);
        // value of the same attribute of another element with the same tag, or a dangling value
        std::vector<std::string> vals;
        for (auto& o : elems)
            if (&o != e)
                for (auto& oa : o.attrs)
                    if (oa.name == a->name || (a->name == "ref" && oa.name == "id") || (a->name == "id" && oa.name == "ref"))
                        vals.push_back(x.substr(oa.vbegin, oa.vend - oa.vbegin));
        std::string nv = vals.empty() || rng.chance(0.25) ? "id99999" : vals[rng.below((uint32_t)vals.size())];
        return x.substr(0, a->vbegin) + nv + x.substr(a->vend);
    }
    case SF_DROP_ELEM:
    case SF_DUP_ELEM:
    case SF_EMPTY_ELEM:
    case SF_RENAME_TAG: {
        auto* e = pick_elem([&](const Elem& el) { return el.name != "nta" && el.name != "nail"; });
        if (!e)
            return x;
        desc += " <" + e->name + "> at " + std::to_string(e->begin);
        if (fault == SF_DROP_ELEM)
            return x.substr(0, e->begin) + x.substr(e->end);
        if (fault == SF_DUP_ELEM)
            return x.substr(0, e->end) + x.substr(e->begin, e->end - e->begin) + x.substr(e->end);
        if (fault == SF_EMPTY_ELEM) {
            if (e->selfclose)
                return x;
            size_t close = x.rfind("</", e->end);
            if (close == std::string::npos || close < e->open_end)
                return x;
            return x.substr(0, e->open_end) + x.substr(close);
        }
        // rename start tag only (mismatched) or both
        static const std::vector<std::string> names{"location", "transition", "label", "template", "init", "branchpoint",
                                                    "declaration", "system", "queries", "query", "formula", "option",
                                                    "expect", "resource", "unknowntag", "lsc", "instance", "message"};
        std::string nn = rng.pick(names);
        std::string r = x;
        if (!e->selfclose && rng.chance(0.7)) {
            size_t close = x.rfind("</", e->end);
            if (close != std::string::npos && close >= e->open_end)
                r = r.substr(0, close + 2) + nn + r.substr(close + 2 + e->name.size());
        }
        return r.substr(0, e->begin + 1) + nn + r.substr(e->begin + 1 + e->name.size());
    }
    case SF_SWAP_SIBLINGS: {
        // two consecutive elements (the second starts where the first ends, blanks aside)
        std::vector<std::pair<const Elem*, const Elem*>> pairs;
        for (size_t i = 0; i + 1 < elems.size(); ++i)
            for (size_t j = i + 1; j < elems.size(); ++j) {
                if (elems[j].begin < elems[i].end)
                    continue;
                bool only_ws = true;
                for (size_t k = elems[i].end; k < elems[j].begin; ++k)
                    if (!std::isspace((unsigned char)x[k]))
                        only_ws = false;
                if (only_ws && elems[i].name != "nta")
                    pairs.emplace_back(&elems[i], &elems[j]);
                break;
            }
        if (pairs.empty())
            return x;
        auto [a, b] = pairs[rng.below((uint32_t)pairs.size())];
        desc += " <" + a->name + "> <-> <" + b->name + "> at " + std::to_string(a->begin);
        return x.substr(0, a->begin) + x.substr(b->begin, b->end - b->begin) + x.substr(a->end, b->begin - a->end) +
               x.substr(a->begin, a->end - a->begin) + x.substr(b->end);
    }
    case SF_ODD_TEXT: {
        auto* e = pick_elem([&](const Elem& el) {
            if (el.selfclose || el.end <= el.open_end)
                return false;
            if (el.name == "declaration" || el.name == "label" || el.name == "system" || el.name == "parameter" || el.name == "formula" ||
                el.name == "comment")
                return false;  // grammar blocks have their own fault kinds
            size_t close = x.rfind("</", el.end);
            if (close == std::string::npos || close <= el.open_end)
                return false;
            return x.find('<', el.open_end) == close;
        });
        if (!e)
            return x;
        size_t close = x.rfind("</", e->end);
        const std::string old = x.substr(e->open_end, close - e->open_end);
        static const char* odd[] = {"\n\t\t\t%s\n\t\t", "x%s", "%s %s", "99999999999999999999", "-1", "2nd", "Se-en", "%s.5", "0x1F", "   ", "&#x41;&#x20;&#x42;"};
        std::string fmt = odd[rng.below(sizeof odd / sizeof odd[0])], nw;
        for (size_t i = 0; i < fmt.size(); ++i) {
            if (fmt[i] == '%' && i + 1 < fmt.size() && fmt[i + 1] == 's') {
                nw += old;
                ++i;
            } else
                nw += fmt[i];
        }
        desc += " <" + e->name + "> at " + std::to_string(e->begin);
        return x.substr(0, e->open_end) + nw + x.substr(close);
    }
    case SF_EMPTY_TEXT: {
        auto* e = pick_elem([&](const Elem& el) {
            if (el.selfclose || el.end <= el.open_end)
                return false;
            size_t close = x.rfind("</", el.end);
            if (close == std::string::npos || close <= el.open_end)
                return false;
            return x.find('<', el.open_end) == close || x.compare(el.open_end, 9, "<![CDATA[") == 0;
        });
        if (!e)
            return x;
        size_t close = x.rfind("</", e->end);
        desc += " <" + e->name + "> at " + std::to_string(e->begin);
        return x.substr(0, e->open_end) + (rng.chance(0.5) ? "" : "  \n ") + x.substr(close);
    }
    }
    return x;
}

namespace {
std::string unescape_basic(const std::string& s)
{
    std::string r;
    for (size_t i = 0; i < s.size(); ++i) {
        if (s[i] == '&') {
            if (s.compare(i, 4, "&lt;") == 0) {
                r += '<';
                i += 3;
                continue;
            }
            if (s.compare(i, 4, "&gt;") == 0) {
                r += '>';
                i += 3;
                continue;
            }
            if (s.compare(i, 5, "&amp;") == 0) {
                r += '&';
                i += 4;
                continue;
            }
        }
        r += s[i];
    }
    return r;
}
}  // namespace

std::string apply_random_token_fault_text(const std::string& text, Rng& rng, std::string& desc)
{
    auto toks = tokenize(text);
    if (toks.empty())
        return text;
    for (int attempt = 0; attempt < 8; ++attempt) {
        size_t ti = rng.below((uint32_t)toks.size());
        int f = rng.below(TF_SIDE_EFFECT);
        auto r = apply_token_fault(text, toks, ti, f, BlockRef::GUARD, "ch0");
        if (r.applied) {
            desc = std::string{token_fault_name(f)} + "@tok" + std::to_string(ti);
            return r.text;
        }
    }
    return text;
}

static std::string apply_random_token_fault_xml_unchecked(const std::string& x, Rng& rng, std::string& desc);
std::string apply_random_token_fault_xml(const std::string& x, Rng& rng, std::string& desc)
{
    try {
        return apply_random_token_fault_xml_unchecked(x, rng, desc);
    } catch (const std::out_of_range&) {
        desc = "token fault (not applicable)";
        return x;
    }
}
static std::string apply_random_token_fault_xml_unchecked(const std::string& x, Rng& rng, std::string& desc)
{
    auto elems = scan(x);
    std::vector<const Elem*> c;
    for (auto& e : elems) {
        if (e.selfclose || e.end <= e.open_end)
            continue;
        if (e.name != "declaration" && e.name != "label" && e.name != "parameter" && e.name != "system" &&
            e.name != "instantiation" && e.name != "formula" && e.name != "name")
            continue;
        size_t close = x.rfind("</", e.end);
        if (close == std::string::npos || close <= e.open_end)
            continue;
        if (x.find('<', e.open_end) != close)
            continue;  // CDATA or nested markup: skip
        c.push_back(&e);
    }
    if (c.empty())
        return x;
    auto* e = c[rng.below((uint32_t)c.size())];
    size_t close = x.rfind("</", e->end);
    std::string text = unescape_basic(x.substr(e->open_end, close - e->open_end));
    std::string d;
    std::string nt = apply_random_token_fault_text(text, rng, d);
    desc = "token " + d + " in <" + e->name + "> at " + std::to_string(e->begin);
    return x.substr(0, e->open_end) + xml_escape(nt, 0) + x.substr(close);
}


// ---------------------------------------------------------------------------------------------
// model-level faults
// ---------------------------------------------------------------------------------------------
const char* model_fault_name(int f)
{
    static const char* n[] = {"dup-location-name", "drop-argument",  "extra-argument",   "unknown-template", "dup-template-name", "system-no-semicolon",
                              "dup-process",       "dup-declaration", "dup-parameter",   "foreign-target",   "init-is-branchpoint", "unknown-process", "empty-template", "bad-dynamic-declaration", "no-system", "extra-initialiser", "function-without-return",
                              "urgent-and-committed", "dynamic-parameter-mismatch", "random-initialiser", "global-declaration-in-template", "bad-name", "no-init", "bad-iteration-type"};
    return f >= 0 && f < MF_COUNT ? n[f] : "?";
}

bool apply_model_fault(Model& m, int fault, Rng& rng, bool semantic_only)
{
    auto pick_templ = [&](auto pred) -> MTempl* {
        std::vector<MTempl*> c;
        for (auto& t : m.templs)
            if (pred(t))
                c.push_back(&t);
        return c.empty() ? nullptr : c[rng.below((uint32_t)c.size())];
    };
    switch (fault) {
    case MF_DUP_LOC_NAME: {
        MTempl* t = pick_templ([](const MTempl& x) { return x.locs.size() >= 2; });
        if (!t)
            return false;
        size_t a = rng.below((uint32_t)t->locs.size()), b = rng.below((uint32_t)t->locs.size());
        if (a == b)
            b = (a + 1) % t->locs.size();
        // sometimes the duplicate is the last location of the template
        if (rng.chance(0.5))
            b = t->locs.size() - 1, a = b == a ? 0 : a;
        t->locs[b].name = t->locs[a].name.empty() ? "_" + t->locs[a].id : t->locs[a].name;
        return true;
    }
    case MF_DROP_ARG:
    case MF_EXTRA_ARG: {
        std::vector<MInst*> c;
        for (auto& i : m.insts)
            if (fault == MF_EXTRA_ARG || !i.args.empty())
                c.push_back(&i);
        if (c.empty())
            return false;
        MInst* i = c[rng.below((uint32_t)c.size())];
        if (fault == MF_DROP_ARG)
            i->args.erase(i->args.begin() + rng.below((uint32_t)i->args.size()));
        else {
            MArg a;
            a.text = "1";
            i->args.push_back(a);
        }
        return true;
    }
    case MF_UNKNOWN_TEMPLATE: {
        if (m.insts.empty())
            return false;
        MInst& i = m.insts[rng.below((uint32_t)m.insts.size())];
        (i.base.empty() ? i.templ : i.base) = rng.chance(0.5) ? "NoSuchTemplate" : "gi0";
        return true;
    }
    case MF_DUP_TEMPLATE_NAME: {
        if (m.templs.size() < 2)
            return false;
        size_t b = 1 + rng.below((uint32_t)m.templs.size() - 1);
        m.templs[b].name = m.templs[rng.below((uint32_t)b)].name;
        return true;
    }
    case MF_SYSTEM_NO_SEMI: {
        std::string s = get_block_text(m, BlockRef{BlockRef::SYSTEM, -1, -1, "/nta/system"});
        size_t e = s.find_last_of(';');
        if (e == std::string::npos)
            return false;
        m.system_raw = s.substr(0, e);
        return true;
    }
    case MF_DUP_PROCESS:
        if (m.system.empty())
            return false;
        m.system.push_back(m.system[rng.below((uint32_t)m.system.size())]);
        m.prio_lt.push_back(false);
        return true;
    case MF_UNKNOWN_PROCESS:
        m.system.push_back(rng.chance(0.5) ? "NoSuchProcess" : "gi0");
        m.prio_lt.push_back(false);
        return true;
    case MF_DUP_DECL: {
        auto& d = rng.chance(0.6) || m.templs.empty() ? m.gdecls : m.templs[rng.below((uint32_t)m.templs.size())].decls;
        if (d.empty())
            return false;
        const size_t pi = rng.below((uint32_t)d.size());
        const MDecl pick = d[pi];
        if (semantic_only && pick.kind != MDecl::VAR)
            return false;
        // semantic_only: after the original, so that every type the declaration mentions is already declared
        const size_t lo = semantic_only ? pi + 1 : 0;
        d.insert(d.begin() + lo + rng.below((uint32_t)(d.size() + 1 - lo)), pick);
        return true;
    }
    case MF_DUP_PARAM: {
        MTempl* t = pick_templ([](const MTempl& x) { return x.params.size() >= 2; });
        if (!t)
            return false;
        MParam& p = t->params.back();
        const std::string& other = t->params.front().name;
        size_t at = p.text.rfind(p.name);
        if (at == std::string::npos)
            return false;
        p.text = p.text.substr(0, at) + other + p.text.substr(at + p.name.size());
        p.name = other;
        return true;
    }
    case MF_FOREIGN_TARGET: {
        if (m.templs.size() < 2)
            return false;
        MTempl* t = pick_templ([](const MTempl& x) { return !x.edges.empty(); });
        if (!t)
            return false;
        const MTempl* o = nullptr;
        for (auto& x : m.templs)
            if (&x != t && !x.locs.empty())
                o = &x;
        if (!o)
            return false;
        t->edges[rng.below((uint32_t)t->edges.size())].dst_id_override = o->locs[rng.below((uint32_t)o->locs.size())].id;
        return true;
    }
    case MF_NO_SYSTEM:
        m.omit_system = true;
        return true;
    case MF_EXTRA_INITIALISER: {
        for (auto& d : m.gdecls) {
            size_t at = d.text.find(", 2 };");
            if (d.kind == MDecl::VAR && at != std::string::npos) {
                d.text = d.text.substr(0, at) + ", 2, 3 };";
                return true;
            }
        }
        return false;
    }
    case MF_FUNC_NO_RETURN: {
        std::vector<MDecl*> c;
        for (auto& d : m.gdecls)
            if (d.kind == MDecl::FUN && d.text.compare(0, 4, "void") != 0 && d.text.rfind("  return ") != std::string::npos)
                c.push_back(&d);
        for (auto& t : m.templs)
            for (auto& d : t.decls)
                if (d.kind == MDecl::FUN && d.text.compare(0, 4, "void") != 0 && d.text.rfind("  return ") != std::string::npos)
                    c.push_back(&d);
        if (c.empty())
            return false;
        MDecl* d = c[rng.below((uint32_t)c.size())];
        size_t at = d->text.rfind("  return ");
        size_t end = d->text.find(";\n", at);
        if (end == std::string::npos)
            return false;
        d->text = d->text.substr(0, at) + d->text.substr(end + 2);
        return true;
    }
    case MF_URGENT_AND_COMMITTED: {
        MTempl* t = pick_templ([](const MTempl& x) { return !x.locs.empty(); });
        if (!t)
            return false;
        MLoc& l = t->locs[rng.below((uint32_t)t->locs.size())];
        // unique name: the XTA flags go by name
        for (auto& o : t->locs)
            if (&o != &l && o.docname() == l.docname())
                return false;
        l.urgent = l.committed = true;
        return true;
    }
    case MF_DYNAMIC_PARAM_MISMATCH: {
        for (auto& d : m.gdecls)
            if (d.kind == MDecl::OTHER && d.text.rfind("dynamic D0(", 0) == 0) {
                switch (rng.below(3)) {
                case 0: d.text = "dynamic D0(const int dp0);"; break;
                case 1: d.text = "dynamic D0(const int dp0, const int dp1, const int dp2);"; break;
                default: d.text = "dynamic D0(const int dp1, const int dp0);"; break;
                }
                return true;
            }
        return false;
    }
    case MF_RANDOM_INIT: {
        MDecl d;
        d.kind = MDecl::VAR;
        d.name = "zrnd";
        static const char* forms[] = {"double zrnd = random(5);", "const double zrnd = random_normal(1.0, 2.0);", "double zrnd = random_tri(0, 1, 2);",
                                      "int zrnd[2] = { 1, 2 }; double zrnd2 = random_poisson(2.0);"};
        d.text = forms[rng.below(4)];
        if (rng.chance(0.6) || m.templs.empty())
            m.gdecls.push_back(d);
        else
            m.templs[rng.below((uint32_t)m.templs.size())].decls.push_back(d);
        return true;
    }
    case MF_GLOBAL_DECL_IN_TEMPLATE: {
        if (m.templs.empty())
            return false;
        MTempl& t = m.templs[rng.below((uint32_t)m.templs.size())];
        MDecl d;
        d.kind = MDecl::OTHER;
        d.name = "zglob";
        static const char* forms[] = {"dynamic ZD(const int za);", "process ZQ() { state za; init za; }", "ZI = ZQ();", "chan priority ch0 < default;",
                                      "before_update { gi0 = 0 }", "after_update { gi0 = 1 }", "system ZQ;", "import \"libz.so\" { int zext(int a); };"};
        d.text = forms[rng.below(8)];
        t.decls.insert(t.decls.begin() + rng.below((uint32_t)t.decls.size() + 1), d);
        return true;
    }
    case MF_BAD_NAME: {
        if (semantic_only)
            return false;
        static const char* bad[] = {"2nd", "Se-en", "Obs erver", "clock", "urgent"};
        if (rng.chance(0.25) && !m.templs.empty()) {
            m.templs[rng.below((uint32_t)m.templs.size())].name = bad[rng.below(5)];
            return true;
        }
        MTempl* t = pick_templ([](const MTempl& x) {
            for (auto& l : x.locs)
                if (!l.name.empty())
                    return true;
            return false;
        });
        if (!t)
            return false;
        std::vector<MLoc*> named;
        for (auto& l : t->locs)
            if (!l.name.empty())
                named.push_back(&l);
        named[rng.below((uint32_t)named.size())]->name = bad[rng.below(5)];
        return true;
    }
    case MF_NO_INIT: {
        if (semantic_only)
            return false;
        // prefer the definition of a dynamic template, and not the first template of the document
        MTempl* pick = nullptr;
        for (size_t i = 0; i < m.templs.size(); ++i)
            if (m.templs[i].dynamic && (i > 0 || rng.chance(0.3)))
                pick = &m.templs[i];
        if (!pick || rng.chance(0.3))
            pick = pick_templ([](const MTempl& x) { return !x.locs.empty(); });
        if (!pick)
            return false;
        pick->omit_init = true;
        return true;
    }
    case MF_BAD_ITERATION_TYPE: {
        if (semantic_only && m.old_syntax)
            return false;  // the 3.x syntax has no iteration statement: a syntax error there
        MDecl d;
        d.kind = MDecl::FUN;
        d.name = "zbadit";
        static const char* types[] = {"bool", "clock", "double", "chan"};
        d.text = std::string{"void zbadit() {\n  int zz = 0;\n  for (zi : "} + types[rng.below(4)] + ") { zz++; }\n}";
        if (rng.chance(0.6) || m.templs.empty())
            m.gdecls.push_back(d);
        else
            m.templs[rng.below((uint32_t)m.templs.size())].decls.push_back(d);
        return true;
    }
    case MF_BAD_DYNAMIC_DECL: {
        MDecl d;
        d.kind = MDecl::OTHER;
        d.name = "DX";
        d.text = rng.chance(0.5) ? "dynamic DX(clock &zr);" : "dynamic DX(int &zr, const int zk);";
        // among the global declarations, so that declarations with parameter lists (functions, templates) follow it
        m.gdecls.insert(m.gdecls.begin() + rng.below((uint32_t)m.gdecls.size() + 1), d);
        return true;
    }
    case MF_EMPTY_TEMPLATE: {
        if (m.templs.empty())
            return false;
        MTempl& t = m.templs[rng.below((uint32_t)m.templs.size())];
        if (t.dynamic)
            return false;
        t.locs.clear();
        t.bps.clear();
        t.edges.clear();
        t.decls.clear();
        t.init = -1;
        return true;
    }
    case MF_INIT_IS_BRANCHPOINT: {
        MTempl* t = pick_templ([](const MTempl& x) { return !x.bps.empty(); });
        if (!t)
            return false;
        t->init_override = t->bps[0].id;
        return true;
    }
    default: return false;
    }
}

}  // namespace sim
