#include "runner.h"

#include "libparser.h"

#include <algorithm>
#include <cerrno>
#include <chrono>
#include <csignal>
#include <cstring>
#include <dirent.h>
#include <fcntl.h>
#include <fstream>
#include <poll.h>
#include <sstream>
#include <sys/mman.h>
#include <sys/stat.h>
#include <sys/wait.h>
#include <unistd.h>

// coverage build only (tools/coverage.sh compiles with -DSIM_COV=1): run children leave through _exit, which skips gcov's
// atexit dump
#if defined(SIM_COV) && SIM_COV
extern "C" void __gcov_dump(void);
#define SIM_COV_DUMP() __gcov_dump()
#else
#define SIM_COV_DUMP() ((void)0)
#endif

namespace sim {

// ---------------------------------------------------------------------------------------------
// small utilities
// ---------------------------------------------------------------------------------------------
std::string json_escape(const std::string& s)
{
    std::string r;
    for (unsigned char c : s) {
        switch (c) {
        case '"': r += "\\\""; break;
        case '\\': r += "\\\\"; break;
        case '\n': r += "\\n"; break;
        case '\r': r += "\\r"; break;
        case '\t': r += "\\t"; break;
        default:
            if (c < 32 || c > 126) {
                char b[8];
                snprintf(b, sizeof b, "\\u%04x", c);
                r += b;
            } else
                r += (char)c;
        }
    }
    return r;
}

static std::string field_escape(const std::string& s)
{
    std::string r;
    for (char c : s) {
        if (c == '\n')
            r += "\\n";
        else if (c == '\t')
            r += "\\t";
        else if (c == '\\')
            r += "\\\\";
        else
            r += c;
    }
    return r;
}
static std::string field_unescape(const std::string& s)
{
    std::string r;
    for (size_t i = 0; i < s.size(); ++i) {
        if (s[i] == '\\' && i + 1 < s.size()) {
            ++i;
            r += s[i] == 'n' ? '\n' : (s[i] == 't' ? '\t' : s[i]);
        } else
            r += s[i];
    }
    return r;
}
static std::vector<std::string> split(const std::string& s, char sep)
{
    std::vector<std::string> v;
    size_t a = 0;
    for (;;) {
        size_t b = s.find(sep, a);
        if (b == std::string::npos) {
            v.push_back(s.substr(a));
            break;
        }
        v.push_back(s.substr(a, b - a));
        a = b + 1;
    }
    return v;
}

static std::vector<std::pair<std::string, std::string>> g_corpus;
const std::vector<std::pair<std::string, std::string>>& corpus() { return g_corpus; }
void load_corpus(const std::string& repo)
{
    g_corpus.clear();
    std::string dir = repo + "/test/models";
    std::vector<std::string> names;
    if (DIR* d = opendir(dir.c_str())) {
        while (auto* e = readdir(d)) {
            std::string n = e->d_name;
            if (n.size() > 4 && n.substr(n.size() - 4) == ".xml")
                names.push_back(n);
        }
        closedir(d);
    }
    std::sort(names.begin(), names.end());
    for (auto& n : names) {
        std::ifstream f(dir + "/" + n, std::ios::binary);
        std::stringstream ss;
        ss << f.rdbuf();
        g_corpus.emplace_back(n, ss.str());
    }
}

// ---------------------------------------------------------------------------------------------
// child side
// ---------------------------------------------------------------------------------------------
struct SharedPage
{
    volatile int step;
    volatile int in_call;
    volatile int in_traversal;  // the harness is walking a Document built by the library (dump, monitor, oracle)
    char desc[700];
    char hint[300];
};
static SharedPage* g_shared = nullptr;
static RunCtx* g_ctx = nullptr;

static void write_all(int fd, const std::string& s)
{
    size_t off = 0;
    while (off < s.size()) {
        ssize_t n = ::write(fd, s.data() + off, s.size() - off);
        if (n <= 0) {
            if (errno == EINTR)
                continue;
            break;
        }
        off += (size_t)n;
    }
}

void RunCtx::step(int index, const std::string& desc)
{
    if (g_shared) {
        g_shared->step = index;
        strncpy(g_shared->desc, desc.c_str(), sizeof g_shared->desc - 1);
        strncpy(g_shared->hint, hint.c_str(), sizeof g_shared->hint - 1);
    }
    if (index + 1 > nsteps)
        nsteps = index + 1;
}

void RunCtx::event(const std::string& what) { event_hash = fnv1a(what, event_hash * 1099511628211ULL + 17); }

void RunCtx::explain_line(const std::string& s)
{
    if (explain)
        write_all(out_fd, "E\t" + field_escape(s) + "\n");
}

bool RunCtx::violation(const std::string& property, const std::string& cls, const std::string& signature,
                       const std::string& detail)
{
    if (!is_armed(property)) {
        count("ignored-violation:" + property + ":" + cls);
        return false;
    }
    ++violations;
    write_all(out_fd, "V\t" + property + "\t" + field_escape(cls) + "\t" + field_escape(signature) + "\t" +
                          std::to_string(g_shared ? (int)g_shared->step : -1) + "\t" + field_escape(detail) + "\n");
    return true;
}

static void finish_child(RunCtx& ctx)
{
    std::string out;
    for (auto& [k, v] : ctx.counters)
        out += "C\t" + field_escape(k) + "\t" + std::to_string(v) + "\n";
    for (auto& s : ctx.samples)
        out += "X\t" + field_escape(s) + "\n";
    if (ctx.interleaving_hash)
        out += "I\t" + std::to_string(ctx.interleaving_hash) + "\n";
    out += "D\t" + std::to_string(ctx.nsteps) + "\t" + std::to_string(ctx.event_hash) + "\n";
    write_all(ctx.out_fd, out);
}

/** property a crash / hang / exit inside a library call is reported under: C01 when armed (or nothing is armed), else the
 *  profile's own property (see the comment in reap()); "" = not reported */
static std::string crash_property(const std::string& profile, const std::set<std::string>& armed, const char* hint)
{
    if (armed.empty() || armed.count("C01"))
        return "C01";
    static const std::map<std::string, std::vector<std::string>> own{
        {"blast", {"C16", "C06"}}, {"mirror", {"C04"}}, {"twin", {"C05"}}, {"writer", {"C20"}}};
    auto it = own.find(profile);
    if (it == own.end() || strncmp(hint, "noise:", 6) == 0)
        return "";
    for (auto& p : it->second)
        if (armed.count(p))
            return p;
    return "";
}

static void abort_report(const char* cls)
{
    // called from a signal handler or from inside the allocator: only async-signal-safe work
    if (!g_ctx)
        _exit(5);
    char buf[1400];
    const char* hint = g_shared ? g_shared->hint : "";
    const char* desc = g_shared ? g_shared->desc : "";
    const std::string prop = crash_property(g_ctx->profile, g_ctx->armed, hint);
    // signature: the kind of input, not its particulars (offsets of the injected faults)
    char kind[64];
    size_t kl = strcspn(hint, "+");
    if (kl >= sizeof kind)
        kl = sizeof kind - 1;
    memcpy(kind, hint, kl);
    kind[kl] = 0;
    int n = snprintf(buf, sizeof buf, "V\t%s\t%s%s\t%s|%s\t%d\t%s hint=%s\n", prop.c_str(), prop == "C01" ? "" : "crash:", cls, cls, kind,
                     g_shared ? (int)g_shared->step : -1, desc, hint);
    if (!prop.empty()) {
        if (n > 0)
            (void)!::write(g_ctx->out_fd, buf, (size_t)std::min<int>(n, (int)sizeof buf - 1));
    }
    char d[64];
    n = snprintf(d, sizeof d, "D\t%d\t0\n", g_ctx->nsteps);
    (void)!::write(g_ctx->out_fd, d, (size_t)n);
    _exit(0);
}
static void on_alarm(int)
{
    if (g_shared && !g_shared->in_call) {
        static const char msg[] = "V\tHARNESS\tharness-hang\tharness-hang\t-1\tthe harness itself did not finish within its time limit\n";
        if (g_ctx)
            (void)!::write(g_ctx->out_fd, msg, sizeof msg - 1);
        _exit(0);
    }
    abort_report("hang-watchdog");
}
static void on_ceiling() { abort_report("cost-ceiling"); }
static void on_exit_in_call()
{
    if (g_op.io_fault_fired != IO_NONE)
        abort_report("exit-on-io-error");
    abort_report("exit-inside-call");
}

Sched RunCtx::draw_sched(Rng& rng, bool allow_fault, bool writer)
{
    Sched s;
    if (writer) {
        // libxml2's output callback contract: the callback takes everything or fails (xmlOutputBufferFlush calls it
        // once and drops the rest), so short writes would be a stub that lies; only faults are scheduled
    } else if (simplify & SIMP_SCHED) {
        if (!allow_fault)
            return s;
    } else {
        int m = rng.below(10);
        static const uint32_t chunks[] = {1, 2, 7, 511, 4000};
        if (m < 4)
            s.mode = 0;
        else if (m < 8) {
            s.mode = 1;
            s.chunk = chunks[rng.below(5)];
        } else {
            s.mode = 2;
            s.chunk = chunks[1 + rng.below(4)];
        }
        s.seed = rng.next();
    }
    if (allow_fault) {
        s.fault_at = rng.chance(0.7) ? 1 + rng.below(6) : 1 + rng.below(300);
        if (writer)
            s.fault_kind = rng.chance(0.2) ? IO_CLOSEFAIL : (rng.chance(0.5) ? IO_ENOSPC : IO_EIO);
        else
            s.fault_kind = 1 + rng.below(3);
    }
    return s;
}

CallResult RunCtx::call(Session& s, const CallSpec& c, int stepno, bool monitors)
{
    step(stepno, c.str());
    if (explain) {
        explain_line("step " + std::to_string(stepno) + ": " + c.str() + (hint.empty() ? "" : " hint=" + hint));
        if (c.entry != E_WRITE)
            explain_line("  input: " + c.bytes);
    }
    if (g_shared)
        g_shared->in_call = 1;
    // block and query parses add diagnostics to an existing document: remember where the new ones start (C06, block form)
    const bool block_call = (c.entry == E_PART && c.backend == B_BUILDER) || ((c.entry == E_PROP_STR || c.entry == E_PROP_FILE) && c.backend == B_TIGA);
    size_t errs_before = 0, warns_before = 0;
    if (block_call && s.doc && !s.tainted) {
        errs_before = s.doc->get_errors().size();
        warns_before = s.doc->get_warnings().size();
    }
    const uint32_t clock_before = UTAP::tracker.position;
    alarm((unsigned)watchdog_s);
    CallResult r = run_call(s, c, stepno);
    // once the 32-bit position clock has wrapped, positions of documents that straddle the wrap are meaningless: that
    // is finding F-C15-2 (reported under C15), not a second, independent C06 defect
    static bool clock_wrapped = false;
    if (UTAP::tracker.position < clock_before && (uint64_t)clock_before + c.bytes.size() + 300000 >= (1ull << 32))
        clock_wrapped = true;
    alarm(300);
    if (g_shared)
        g_shared->in_call = 0;
    count("calls");
    count(std::string{"entry:"} + entry_name(c.entry) + "/" + backend_name(c.backend) + (c.newxta ? "/new" : "/old"));
    if (r.threw)
        count("exception:" + r.exc_class);
    if (r.ctx.fail_fired)
        count("fault-fired:alloc");
    if (r.ctx.io_fault_fired != IO_NONE)
        count(std::string{"fault-fired:"} + io_fault_name(r.ctx.io_fault_fired));
    if (c.alloc_fail_at > 0)
        count("fault-configured:alloc");
    if (c.sink_fail_after >= 0)
        count("fault-configured:sink");
    if (r.sink_fault_fired)
        count("fault-fired:sink");
    if (c.sched.fault_at)
        count(std::string{"fault-configured:"} + io_fault_name(c.sched.fault_kind));
    if (r.ctx.dlopen_refused)
        count("dlopen-refused", r.ctx.dlopen_refused);
    if (r.ctx.lib_opens)
        count("library-opened-the-input-file-itself", r.ctx.lib_opens);
    if (r.ctx.emfile)
        count("open-refused:EMFILE(descriptor-budget)", r.ctx.emfile);
    count("io-callbacks", r.ctx.io_calls);
    count("allocations-in-calls", r.ctx.allocs);
    if (c.entry != E_WRITE)
        count("input-bytes", c.bytes.size());
    if (r.nonstd) {
        if (violation("C01", "non-std-exception", std::string{"non-std-exception|"} + entry_name(c.entry) + "|" + hint, c.str()))
            return r;
    }
    if (monitors && block_call && s.doc && !s.tainted && !r.env_faulted() && is_armed("C06") && clock_wrapped)
        count("c06-block-calls-skipped-after-clock-wrap");
    if (monitors && block_call && s.doc && !s.tainted && !r.env_faulted() && is_armed("C06") && !clock_wrapped) {
        std::string w6;
        try {
            w6 = check_c06_block(*s.doc, errs_before, warns_before, c.bytes, c.entry == E_PROP_FILE ? std::string{} : c.xpath, clock_before,
                                 UTAP::tracker.position);
        } catch (const std::exception& e) {
            w6 = std::string{"monitor threw: "} + e.what();
        }
        count("c06-block-calls-checked");
        count("c06-block-diagnostics-checked", s.doc->get_errors().size() + s.doc->get_warnings().size() - errs_before - warns_before);
        if (!w6.empty()) {
            size_t q1 = w6.find('\''), q2 = w6.find('\'', q1 == std::string::npos ? 0 : q1 + 1);
            std::string msg = (q1 != std::string::npos && q2 != std::string::npos) ? w6.substr(q1 + 1, q2 - q1 - 1) : "";
            std::string kind = q2 == std::string::npos ? w6 : w6.substr(q2 + 1, 14);
            if (violation("C06", "position-ill-formed", "c06-block|" + msg.substr(0, msg.find(' ')) + "|" + kind, w6 + " after " + c.str() + "; text: " + c.bytes.substr(0, 300)))
                return r;
        }
    }
    if (monitors && s.doc && !s.tainted && (c.backend == B_DOC || c.backend == B_BUILDER) && c.entry != E_WRITE) {
        bool ok = !r.threw && c.entry <= E_XTA_FILE && c.backend == B_DOC && !s.doc->has_errors();
        std::string why;
        try {
            why = check_c08(*s.doc, ok);
        } catch (const std::exception& e) {
            why = std::string{"monitor threw: "} + e.what();
        }
        count("c08-documents-checked");
        if (s.doc->has_errors())
            count("c08-documents-with-errors");
        if (r.threw)
            count("c08-documents-after-exception");
        if (!why.empty()) {
            // signature: the broken clause without names
            std::string clause = why;
            size_t q1 = clause.find('\'');
            size_t q2 = clause.find('\'', q1 == std::string::npos ? 0 : q1 + 1);
            if (q1 != std::string::npos && q2 != std::string::npos)
                clause = clause.substr(0, q1) + clause.substr(q2 + 1);
            if (violation("C08", "structural-invariant", clause + "|" + hint, why + " after " + c.str()))
                return r;
        }
        if (c06_applicable && c.entry <= E_XTA_FILE && s.has_load) {
            std::string w6;
            try {
                w6 = check_c06a(*s.doc, s.delivered, s.load_xml);
            } catch (const std::exception& e) {
                w6 = std::string{"monitor threw: "} + e.what();
            }
            count("c06a-documents-checked");
            count("c06a-diagnostics-checked", s.doc->get_errors().size() + s.doc->get_warnings().size());
            if (!w6.empty()) {
                std::string clause = w6;
                size_t q1 = clause.find('\'');
                size_t q2 = clause.find('\'', q1 == std::string::npos ? 0 : q1 + 1);
                std::string msg = (q1 != std::string::npos && q2 != std::string::npos) ? clause.substr(q1 + 1, q2 - q1 - 1) : "";
                size_t colon = clause.find(": ", q2 == std::string::npos ? 0 : q2);
                std::string kind = colon == std::string::npos ? clause.substr(q2 == std::string::npos ? 0 : q2 + 1)
                                                              : clause.substr(colon + 2, 12);
                if (violation("C06", "position-ill-formed", "c06a|" + msg.substr(0, msg.find(' ')) + "|" + kind, w6 + " after " + c.str()))
                    return r;
            }
        }
    }
    return r;
}

// ---------------------------------------------------------------------------------------------
// parent side: running one run in a fresh child
// ---------------------------------------------------------------------------------------------
struct VRec
{
    std::string property, cls, signature, detail;
    int step{-1};
};
struct RunSpec
{
    std::string profile;
    uint64_t run_seed{0};
    std::set<int> dropped;
    int simplify{0};
    std::set<std::string> armed;
    std::string family;
    bool thorough{false};
    bool explain{false};
};
struct RunResult
{
    std::vector<VRec> violations;
    std::map<std::string, uint64_t> counters;
    std::vector<std::string> samples;
    std::vector<std::string> explain;
    int nsteps{0};
    uint64_t hash{0};
    uint64_t interleaving{0};
    bool done{false};
    int status{0};
    std::string stderr_text;
};

struct Child
{
    pid_t pid{-1};
    int fd{-1};
    int errfd{-1};
    SharedPage* shared{nullptr};
    std::string buf;
    RunSpec spec;
    size_t index{0};
};

#if SIM_ASAN
#define SIM_VARIANT "asan"
#else
#define SIM_VARIANT "plain"
#endif
static bool g_asan = SIM_ASAN;

static Child spawn(const RunSpec& spec)
{
    Child c;
    c.spec = spec;
    int p[2];
    if (pipe(p) != 0) {
        perror("pipe");
        exit(2);
    }
    c.shared = (SharedPage*)mmap(nullptr, sizeof(SharedPage), PROT_READ | PROT_WRITE, MAP_SHARED | MAP_ANONYMOUS, -1, 0);
    memset(c.shared, 0, sizeof(SharedPage));
    c.shared->step = -1;
    c.errfd = memfd_create("utapsim-stderr", 0);
    fflush(stdout);
    fflush(stderr);
    pid_t pid = fork();
    if (pid < 0) {
        perror("fork");
        exit(2);
    }
    if (pid == 0) {
        close(p[0]);
        if (c.errfd >= 0)
            dup2(c.errfd, 2);
        int devnull = open("/dev/null", O_WRONLY);
        if (devnull >= 0)
            dup2(devnull, 1);
        g_shared = c.shared;
        RunCtx ctx;
        ctx.run_seed = spec.run_seed;
        ctx.profile = spec.profile;
        ctx.thorough = spec.thorough;
        ctx.explain = spec.explain;
        ctx.dropped = spec.dropped;
        ctx.simplify = spec.simplify;
        ctx.armed = spec.armed;
        ctx.family = spec.family;
        ctx.out_fd = p[1];
        ctx.watchdog_s = g_asan ? 60 : 10;
        g_ctx = &ctx;
        seams_init();
        // plain build: every C++ allocation of the run comes from the private pool (deterministic addresses, immediate
        // reuse); the ASan build keeps ASan's allocator, whose quarantine is what makes use-after-free visible
        if (!g_asan)
            alloc_set_mode(AM_POOL);
        g_on_ceiling = on_ceiling;
        g_on_exit_in_call = on_exit_in_call;
        g_on_traversal = [](int delta) {
            if (g_shared)
                g_shared->in_traversal += delta;
        };
        signal(SIGALRM, on_alarm);
        // the run process must be pristine: no libutap call has been made in this address space
        if (UTAP::tracker.position != 0) {
            write_all(p[1], "V\tHARNESS\tnot-pristine\tnot-pristine\t-1\ttracker.position != 0 before the run\n");
            _exit(0);
        }
        ProfileFn fn = find_profile(spec.profile);
        if (!fn)
            _exit(6);
        alarm(300);  // outside calls this catches a hang of the harness itself (reported as such)
        try {
            fn(ctx);
        } catch (const std::exception& e) {
            write_all(p[1], std::string{"V\tHARNESS\tharness-exception\tharness-exception\t-1\t"} + field_escape(e.what()) + "\n");
        }
        finish_child(ctx);
        SIM_COV_DUMP();
        _exit(0);
    }
    close(p[1]);
    c.pid = pid;
    c.fd = p[0];
    return c;
}

static std::string sanitizer_signature(const std::string& err, std::string& kind)
{
    // kind
    kind = "unknown";
    size_t p = err.find("ERROR: AddressSanitizer: ");
    if (p != std::string::npos) {
        size_t e = err.find_first_of(" \n", p + 25);
        kind = "asan:" + err.substr(p + 25, e - (p + 25));
    } else if ((p = err.find("runtime error: ")) != std::string::npos) {
        size_t e = err.find('\n', p);
        std::string m = err.substr(p + 15, e - (p + 15));
        // drop addresses and numbers
        std::string k;
        for (char c : m)
            if (!std::isdigit((unsigned char)c))
                k += c;
        kind = "ubsan:" + k.substr(0, 60);
    } else if (err.find("ERROR: AddressSanitizer") != std::string::npos)
        kind = "asan:other";
    // innermost two frames inside libutap
    std::vector<std::string> frames;
    size_t pos = 0;
    while (frames.size() < 2) {
        size_t f = err.find(" in ", pos);
        if (f == std::string::npos)
            break;
        size_t eol = err.find('\n', f);
        std::string line = err.substr(f + 4, eol - (f + 4));
        pos = eol == std::string::npos ? err.size() : eol;
        if (line.find("/repo/") == std::string::npos && line.find("/gen/") == std::string::npos &&
            line.find("parser.y") == std::string::npos && line.find("lexer.l") == std::string::npos)
            continue;
        size_t sp = line.find_first_of("( ");
        std::string fn = line.substr(0, sp);
        if (fn.find("sim::") == 0)
            continue;
        frames.push_back(fn);
    }
    std::string sig = kind;
    for (auto& f : frames)
        sig += "|" + f;
    return sig;
}

static void parse_child_output(Child& c, RunResult& r)
{
    for (auto& line : split(c.buf, '\n')) {
        if (line.empty())
            continue;
        auto f = split(line, '\t');
        if (f[0] == "V" && f.size() >= 6) {
            VRec v;
            v.property = f[1];
            v.cls = field_unescape(f[2]);
            v.signature = field_unescape(f[3]);
            v.step = atoi(f[4].c_str());
            v.detail = field_unescape(f[5]);
            r.violations.push_back(v);
        } else if (f[0] == "C" && f.size() >= 3)
            r.counters[field_unescape(f[1])] += strtoull(f[2].c_str(), nullptr, 10);
        else if (f[0] == "X" && f.size() >= 2)
            r.samples.push_back(field_unescape(f[1]));
        else if (f[0] == "E" && f.size() >= 2)
            r.explain.push_back(field_unescape(f[1]));
        else if (f[0] == "I" && f.size() >= 2)
            r.interleaving = strtoull(f[1].c_str(), nullptr, 10);
        else if (f[0] == "D" && f.size() >= 3) {
            r.done = true;
            r.nsteps = atoi(f[1].c_str());
            r.hash = strtoull(f[2].c_str(), nullptr, 10);
        }
    }
}

static RunResult reap(Child& c)
{
    RunResult r;
    int st = 0;
    waitpid(c.pid, &st, 0);
    r.status = st;
    // scratch file of the writer's realfile family, should the child have died before removing it
    for (const char* base : {"/dev/shm", "/tmp"}) {
        std::string d = std::string{base} + "/utapsim." + std::to_string(c.pid);
        unlink((d + "/out.xml").c_str());
        rmdir(d.c_str());
    }
    parse_child_output(c, r);
    if (c.errfd >= 0) {
        off_t n = lseek(c.errfd, 0, SEEK_END);
        if (n > 0) {
            r.stderr_text.resize((size_t)std::min<off_t>(n, 1 << 18));
            (void)!pread(c.errfd, r.stderr_text.data(), r.stderr_text.size(), 0);
        }
        close(c.errfd);
    }
    close(c.fd);
    if (!r.done) {
        // the child died inside a step: a crash of the library (or of the harness, which the signature shows)
        VRec v;
        v.property = "C01";
        v.step = c.shared->step;
        std::string hint = c.shared->hint;
        std::string desc = c.shared->desc;
        if (r.nsteps < v.step + 1)
            r.nsteps = v.step + 1;
        if (WIFEXITED(st) && WEXITSTATUS(st) == 77) {
            std::string kind;
            v.signature = sanitizer_signature(r.stderr_text, kind);
            v.cls = "sanitizer";
            v.detail = kind + " during " + desc + " hint=" + hint;
            if (!c.shared->in_call && c.shared->in_traversal > 0) {
                v.property = c.spec.armed.empty() || c.spec.armed.count("C08") ? "C08" : "C01";
                v.cls = "document-traversal-crash";
                v.signature = "traversal-crash|" + kind + "|" + hint.substr(0, hint.find_first_of("+:"));
                v.detail = kind + " while the harness traversed the document left by " + desc;
            } else if (!c.shared->in_call) {
                v.property = "HARNESS";
                v.cls = "harness-crash";
            }
        } else if (WIFSIGNALED(st)) {
            v.cls = "signal";
            // without a sanitizer there are no frames: the call (entry point, back end, syntax) identifies the site
            v.signature = "signal=" + std::to_string(WTERMSIG(st)) + "|" + desc.substr(0, desc.find(" bytes="));
            v.detail = "signal " + std::to_string(WTERMSIG(st)) + " during " + desc;
            if (!c.shared->in_call) {
                v.property = "HARNESS";
                v.cls = "harness-crash";
            }
            if (!c.shared->in_call && c.shared->in_traversal > 0) {
                // the harness died while walking the public members of a Document: the document is broken (dangling
                // user-data pointer, null expression where clients expect one), which is what C08 is about
                v.property = c.spec.armed.empty() || c.spec.armed.count("C08") ? "C08" : "C01";
                v.cls = "document-traversal-crash";
                v.signature = "traversal-crash|signal=" + std::to_string(WTERMSIG(st)) + "|" + hint.substr(0, hint.find_first_of("+:"));
                v.detail = "signal " + std::to_string(WTERMSIG(st)) + " while the harness traversed the document left by " + desc;
            }
        } else {
            v.cls = "abnormal-exit";
            v.signature = "exit=" + std::to_string(WIFEXITED(st) ? WEXITSTATUS(st) : -1) + "|" + hint.substr(0, hint.find('+'));
            v.detail = "exit status " + std::to_string(WIFEXITED(st) ? WEXITSTATUS(st) : -1) + " during " + desc + "\n" +
                       r.stderr_text.substr(0, 600);
            if (!c.shared->in_call) {
                v.property = "HARNESS";
                v.cls = "harness-crash";
            }
        }
        // A crash is a C01 matter, but it also defeats the profile's own property: a writer that dies has not written
        // a faithful file (C20 says "writing never crashes"), a load that dies under one injected label fault has
        // disturbed everything else (C16) and reported no diagnostic (C06), a well-formed model that kills the
        // reader is not mirrored (C04/C05). When C01 is not the armed property the crash is attributed accordingly.
        if (v.property == "C01") {
            const std::string prop = crash_property(c.spec.profile, c.spec.armed, hint.c_str());
            if (!prop.empty() && prop != "C01") {
                v.property = prop;
                v.cls = "crash:" + v.cls;
            }
        }
        if (c.spec.armed.empty() || c.spec.armed.count(v.property) || v.property == "HARNESS")
            r.violations.push_back(v);
        else
            r.counters["ignored-violation:" + v.property + ":" + v.cls]++;
    }
    munmap(c.shared, sizeof(SharedPage));
    return r;
}

static void pump(Child& c)
{
    char b[65536];
    for (;;) {
        ssize_t n = ::read(c.fd, b, sizeof b);
        if (n > 0)
            c.buf.append(b, (size_t)n);
        else if (n == 0)
            break;
        else if (errno != EINTR)
            break;
    }
}

static RunResult run_one(const RunSpec& spec)
{
    Child c = spawn(spec);
    pump(c);
    return reap(c);
}

static double now_s();

// ---------------------------------------------------------------------------------------------
// shrinking and replay files
// ---------------------------------------------------------------------------------------------
static bool same_violation(const RunResult& r, const VRec& want, bool exact_sig)
{
    for (auto& v : r.violations)
        if (v.property == want.property && v.cls == want.cls && (!exact_sig || v.signature == want.signature))
            return true;
    return false;
}

struct Replay
{
    std::string variant;
    RunSpec spec;
    VRec expect;
    int nsteps{0};
};

static std::string replay_text(const Replay& rp, const RunResult& explained)
{
    std::ostringstream os;
    os << "utapsim-replay 1\n";
    os << "variant " << SIM_VARIANT << "\n";
    os << "profile " << rp.spec.profile << "\n";
    os << "run_seed " << rp.spec.run_seed << "\n";
    os << "thorough " << rp.spec.thorough << "\n";
    os << "family " << (rp.spec.family.empty() ? "-" : rp.spec.family) << "\n";
    os << "simplify " << rp.spec.simplify << "\n";
    os << "nsteps " << rp.nsteps << "\n";
    os << "dropped";
    for (int d : rp.spec.dropped)
        os << " " << d;
    os << "\n";
    os << "armed";
    for (auto& a : rp.spec.armed)
        os << " " << a;
    os << "\n";
    os << "expect_property " << rp.expect.property << "\n";
    os << "expect_class " << field_escape(rp.expect.cls) << "\n";
    os << "expect_signature " << field_escape(rp.expect.signature) << "\n";
    os << "detail " << field_escape(rp.expect.detail) << "\n";
    os << "# minimised schedule and fault trace (informational; the replay is a pure function of the lines above and the code)\n";
    for (auto& e : explained.explain)
        os << "# " << field_escape(e) << "\n";
    return os.str();
}

static bool load_replay(const std::string& path, Replay& rp)
{
    std::ifstream f(path);
    if (!f)
        return false;
    std::string line;
    while (std::getline(f, line)) {
        if (line.empty() || line[0] == '#')
            continue;
        size_t sp = line.find(' ');
        std::string k = line.substr(0, sp), v = sp == std::string::npos ? "" : line.substr(sp + 1);
        if (k == "variant")
            rp.variant = v;
        else if (k == "profile")
            rp.spec.profile = v;
        else if (k == "run_seed")
            rp.spec.run_seed = strtoull(v.c_str(), nullptr, 10);
        else if (k == "thorough")
            rp.spec.thorough = v == "1";
        else if (k == "family")
            rp.spec.family = v == "-" ? "" : v;
        else if (k == "simplify")
            rp.spec.simplify = atoi(v.c_str());
        else if (k == "nsteps")
            rp.nsteps = atoi(v.c_str());
        else if (k == "dropped") {
            std::istringstream is(v);
            int d;
            while (is >> d)
                rp.spec.dropped.insert(d);
        } else if (k == "armed") {
            std::istringstream is(v);
            std::string a;
            while (is >> a)
                rp.spec.armed.insert(a);
        } else if (k == "expect_property")
            rp.expect.property = v;
        else if (k == "expect_class")
            rp.expect.cls = field_unescape(v);
        else if (k == "expect_signature")
            rp.expect.signature = field_unescape(v);
        else if (k == "detail")
            rp.expect.detail = field_unescape(v);
    }
    return !rp.spec.profile.empty();
}

/** ddmin over the kept steps, then the simplification flags; every candidate must fail in the same violation class */
static RunSpec shrink(const RunSpec& start, const VRec& want, int nsteps, int& reruns)
{
    RunSpec best = start;
    // minimisation is a service, not a verdict: it gets a wall-clock budget (a violation that takes the watchdog to show
    // would otherwise cost minutes per candidate); the unminimised plan replays just as well
    static double batch_end = 0;  // ... and all minimisations of one invocation together get 90 s
    if (batch_end == 0)
        batch_end = now_s() + 90.0;
    const double t_end = std::min(now_s() + 45.0, batch_end);
    auto fails = [&](const RunSpec& s) {
        if (now_s() > t_end)
            return false;
        ++reruns;
        return same_violation(run_one(s), want, false);
    };
    std::vector<int> kept;
    for (int i = 0; i < nsteps; ++i)
        if (!best.dropped.count(i))
            kept.push_back(i);
    size_t gran = 2;
    while (kept.size() >= 2 && reruns < 400) {
        size_t chunk = std::max<size_t>(1, kept.size() / gran);
        bool reduced = false;
        for (size_t start_i = 0; start_i < kept.size() && reruns < 400; start_i += chunk) {
            RunSpec cand = best;
            std::vector<int> rest;
            for (size_t i = 0; i < kept.size(); ++i) {
                if (i >= start_i && i < start_i + chunk)
                    cand.dropped.insert(kept[i]);
                else
                    rest.push_back(kept[i]);
            }
            if (rest.empty())
                continue;
            if (fails(cand)) {
                best = cand;
                kept = rest;
                gran = std::max<size_t>(2, gran - 1);
                reduced = true;
                break;
            }
        }
        if (!reduced) {
            if (chunk == 1)
                break;
            gran = std::min(kept.size(), gran * 2);
        }
    }
    for (int flag : {SIMP_SCHED, SIMP_NOJUMP, SIMP_NOERRNO, SIMP_NOARENA, SIMP_SMALLMODEL}) {
        RunSpec cand = best;
        cand.simplify |= flag;
        if (fails(cand))
            best = cand;
    }
    return best;
}

// ---------------------------------------------------------------------------------------------
// orchestrator
// ---------------------------------------------------------------------------------------------
struct Options
{
    std::string cmd;
    std::string profile;
    uint64_t seed{1};
    uint64_t runs{100};
    int workers{16};
    double budget_s{0};
    std::set<std::string> armed;
    std::string family;
    bool thorough{false};
    std::string replay_dir{"/verif/replays"};
    std::string repo{"/repo"};
    std::string replay_file;
    std::string prop_for_replay_name;
    int max_violations{6};
    bool no_shrink{false};
    bool determinism{false};
    bool explain{false};
    std::string dropped;
    int simplify{0};
    std::string nontrivial_key;  // a run counts as non-trivial when this counter is > 0 (empty: every run)
    std::string hash_file;       // the event hashes of the non-trivial runs are appended here
    std::string replay_tag;
};

static double now_s()
{
    using namespace std::chrono;
    return duration<double>(steady_clock::now().time_since_epoch()).count();
}

static void print_violation_json(const VRec& v, const std::string& replay, uint64_t run_seed, int reruns, const char* status)
{
    printf("{\"type\":\"violation\",\"property\":\"%s\",\"class\":\"%s\",\"signature\":\"%s\",\"step\":%d,\"run_seed\":%llu,"
           "\"replay\":\"%s\",\"shrink_reruns\":%d,\"status\":\"%s\",\"detail\":\"%s\"}\n",
           json_escape(v.property).c_str(), json_escape(v.cls).c_str(), json_escape(v.signature).c_str(), v.step,
           (unsigned long long)run_seed, json_escape(replay).c_str(), reruns, status, json_escape(v.detail.substr(0, 1500)).c_str());
    fflush(stdout);
}

static int cmd_run(const Options& o)
{
    double t0 = now_s();
    std::map<std::string, uint64_t> total;
    std::vector<std::string> samples;
    std::set<uint64_t> distinct_hashes, nontrivial_hashes, interleavings;
    uint64_t nontrivial_runs = 0;
    std::map<std::string, int> seen_sigs;
    uint64_t started = 0, finished = 0;
    int nviol = 0, nondet = 0;
    std::vector<Child> live;
    std::vector<std::pair<RunSpec, VRec>> to_shrink;
    std::vector<std::pair<RunSpec, int>> shrink_nsteps;
    uint64_t master = o.seed;
    auto make_spec = [&](uint64_t index) {
        RunSpec s;
        s.profile = o.profile;
        s.run_seed = mix(master, index);
        s.armed = o.armed;
        s.family = o.family;
        s.thorough = o.thorough;
        return s;
    };
    bool stop = false;
    while ((!stop && started < o.runs) || !live.empty()) {
        while (!stop && started < o.runs && (int)live.size() < o.workers) {
            if (o.budget_s > 0 && now_s() - t0 > o.budget_s) {
                stop = true;
                break;
            }
            Child c = spawn(make_spec(started));
            c.index = started++;
            int fl = fcntl(c.fd, F_GETFL);
            fcntl(c.fd, F_SETFL, fl | O_NONBLOCK);
            live.push_back(std::move(c));
        }
        if (live.empty())
            break;
        std::vector<pollfd> pf;
        for (auto& c : live)
            pf.push_back(pollfd{c.fd, POLLIN, 0});
        poll(pf.data(), pf.size(), 1000);
        for (size_t i = 0; i < live.size();) {
            bool eof = false;
            if (pf[i].revents & (POLLIN | POLLHUP | POLLERR)) {
                char b[65536];
                for (;;) {
                    ssize_t n = ::read(live[i].fd, b, sizeof b);
                    if (n > 0)
                        live[i].buf.append(b, (size_t)n);
                    else if (n == 0) {
                        eof = true;
                        break;
                    } else
                        break;
                }
            }
            if (eof) {
                RunResult r = reap(live[i]);
                ++finished;
                for (auto& [k, v] : r.counters)
                    total[k] += v;
                if (samples.size() < 5)
                    for (auto& s : r.samples)
                        if (samples.size() < 5)
                            samples.push_back(s);
                distinct_hashes.insert(r.hash);
                if (r.interleaving)
                    interleavings.insert(r.interleaving);
                if (r.done && (o.nontrivial_key.empty() || (r.counters.count(o.nontrivial_key) && r.counters[o.nontrivial_key] > 0))) {
                    ++nontrivial_runs;
                    nontrivial_hashes.insert(r.hash);
                }
                total["steps"] += r.nsteps;
                for (auto& v : r.violations) {
                    ++nviol;
                    std::string key = v.property + "|" + v.cls + "|" + v.signature;
                    if (seen_sigs[key]++ == 0 && (int)to_shrink.size() < o.max_violations) {
                        to_shrink.emplace_back(live[i].spec, v);
                        shrink_nsteps.emplace_back(live[i].spec, r.nsteps);
                    } else
                        total["violations-duplicate-signature"]++;
                    break;  // one violation per run is reported
                }
                pf.erase(pf.begin() + i);
                live.erase(live.begin() + i);
            } else
                ++i;
        }
    }
    double t_explore = now_s() - t0;
    // gate, minimise, write replay files
    int exit_code = 0;
    for (size_t k = 0; k < to_shrink.size(); ++k) {
        RunSpec spec = to_shrink[k].first;
        VRec want = to_shrink[k].second;
        int nsteps = shrink_nsteps[k].second;
        // gate 1: same seed, fresh process, same violation
        RunResult again = run_one(spec);
        if (!same_violation(again, want, true)) {
            ++nondet;
            print_violation_json(want, "", spec.run_seed, 0, "not-reproducible");
            exit_code = 2;
            continue;
        }
        if (want.property == "HARNESS") {
            print_violation_json(want, "", spec.run_seed, 0, "harness-defect");
            exit_code = 2;
            continue;
        }
        int reruns = 0;
        RunSpec small = o.no_shrink ? spec : shrink(spec, want, std::max(nsteps, again.nsteps), reruns);
        small.explain = true;
        RunResult ex = run_one(small);
        small.explain = false;
        VRec got = want;
        for (auto& v : ex.violations)
            if (v.property == want.property && v.cls == want.cls) {
                got = v;
                break;
            }
        Replay rp;
        rp.spec = small;
        rp.expect = got;
        rp.nsteps = std::max(nsteps, ex.nsteps);
        mkdir(o.replay_dir.c_str(), 0755);
        std::string path = o.replay_dir + "/" + want.property + "-" + o.profile + "-" + std::to_string(spec.run_seed) + "." + SIM_VARIANT + ".replay";
        {
            std::ofstream f(path);
            f << replay_text(rp, ex);
        }
        // gate 2: replay the file in a fresh process
        Replay back;
        bool ok = load_replay(path, back);
        if (ok) {
            RunResult rr = run_one(back.spec);
            ok = same_violation(rr, back.expect, true);
        }
        if (!ok) {
            ++nondet;
            print_violation_json(got, path, spec.run_seed, reruns, "replay-mismatch");
            exit_code = 2;
            continue;
        }
        print_violation_json(got, path, spec.run_seed, reruns, "confirmed");
        if (exit_code == 0)
            exit_code = 1;
    }
    double wall = now_s() - t0;
    // summary
    printf("{\"type\":\"summary\",\"profile\":\"%s\",\"variant\":\"%s\",\"seed\":%llu,\"runs\":%llu,\"runs_requested\":%llu,"
           "\"violations_raw\":%d,\"distinct_violation_signatures\":%zu,\"nondeterministic\":%d,"
           "\"distinct_run_hashes\":%zu,\"nontrivial_runs\":%llu,\"distinct_nontrivial_hashes\":%zu,\"distinct_interleavings\":%zu,\"wall_s\":%.3f,\"explore_s\":%.3f,\"runs_per_hour\":%.0f,\"counters\":{",
           o.profile.c_str(), SIM_VARIANT, (unsigned long long)o.seed, (unsigned long long)finished, (unsigned long long)o.runs, nviol,
           seen_sigs.size(), nondet, distinct_hashes.size(), (unsigned long long)nontrivial_runs, nontrivial_hashes.size(), interleavings.size(), wall, t_explore, t_explore > 0 ? finished * 3600.0 / t_explore : 0.0);
    bool first = true;
    for (auto& [kk, v] : total) {
        printf("%s\"%s\":%llu", first ? "" : ",", json_escape(kk).c_str(), (unsigned long long)v);
        first = false;
    }
    printf("},\"samples\":[");
    for (size_t i = 0; i < samples.size(); ++i)
        printf("%s\"%s\"", i ? "," : "", json_escape(samples[i].substr(0, 2000)).c_str());
    printf("]}\n");
    fflush(stdout);
    if (!o.hash_file.empty()) {
        std::ofstream hf(o.hash_file, std::ios::app);
        for (uint64_t h : nontrivial_hashes)
            hf << h << "\n";
    }
    return exit_code;
}

/** runs every seed twice (fresh processes, different worker slots) and compares the event hashes */
static int cmd_determinism(const Options& o)
{
    int bad = 0;
    uint64_t n = o.runs;
    std::vector<uint64_t> h1(n), h2(n);
    auto pass = [&](std::vector<uint64_t>& out, int workers, bool reverse) {
        std::vector<Child> live;
        uint64_t started = 0;
        while (started < n || !live.empty()) {
            while (started < n && (int)live.size() < workers) {
                uint64_t idx = reverse ? n - 1 - started : started;
                RunSpec s;
                s.profile = o.profile;
                s.run_seed = mix(o.seed, idx);
                s.armed = o.armed;
                s.family = o.family;
                s.thorough = o.thorough;
                Child c = spawn(s);
                c.index = idx;
                live.push_back(std::move(c));
                ++started;
            }
            // wait for the oldest
            pump(live.front());
            RunResult r = reap(live.front());
            uint64_t h = r.hash;
            for (auto& v : r.violations)
                h = fnv1a(v.property + v.cls + v.signature, h);
            out[live.front().index] = h ^ (uint64_t)r.nsteps;
            live.erase(live.begin());
        }
    };
    pass(h1, 1, false);
    pass(h2, std::max(2, o.workers), true);
    for (uint64_t i = 0; i < n; ++i)
        if (h1[i] != h2[i]) {
            ++bad;
            printf("{\"type\":\"nondeterminism\",\"profile\":\"%s\",\"run_seed\":%llu}\n", o.profile.c_str(),
                   (unsigned long long)mix(o.seed, i));
        }
    printf("{\"type\":\"determinism\",\"profile\":\"%s\",\"seeds\":%llu,\"executions\":%llu,\"mismatches\":%d}\n", o.profile.c_str(),
           (unsigned long long)n, (unsigned long long)(2 * n), bad);
    return bad ? 2 : 0;
}

static int cmd_replay(const Options& o)
{
    Replay rp;
    if (!load_replay(o.replay_file, rp)) {
        fprintf(stderr, "cannot read replay file %s\n", o.replay_file.c_str());
        return 2;
    }
    if (!rp.variant.empty() && rp.variant != SIM_VARIANT) {
        // the finding was made by the other build variant: hand over to the sibling binary
        char self[4096];
        ssize_t n = readlink("/proc/self/exe", self, sizeof self - 1);
        if (n > 0) {
            self[n] = 0;
            std::string exe = self;
            size_t dot = exe.rfind('.');
            if (dot != std::string::npos) {
                exe = exe.substr(0, dot + 1) + rp.variant;
                execl(exe.c_str(), exe.c_str(), "--replay", o.replay_file.c_str(), "--repo", o.repo.c_str(), (char*)nullptr);
            }
        }
        fprintf(stderr, "cannot start the %s variant of utapsim\n", rp.variant.c_str());
        return 2;
    }
    rp.spec.explain = true;
    RunResult r = run_one(rp.spec);
    for (auto& e : r.explain)
        printf("%s\n", e.c_str());
    bool hit = same_violation(r, rp.expect, true);
    for (auto& v : r.violations)
        printf("violation property=%s class=%s signature=%s step=%d\n  %s\n", v.property.c_str(), v.cls.c_str(), v.signature.c_str(),
               v.step, v.detail.c_str());
    if (!r.stderr_text.empty())
        printf("--- stderr of the run ---\n%s\n", r.stderr_text.substr(0, 6000).c_str());
    if (hit) {
        printf("VIOLATION property=%s replay=%s\n", rp.expect.property.c_str(), o.replay_file.c_str());
        return 1;
    }
    printf("replay did not reproduce the recorded violation (expected %s/%s/%s)\n", rp.expect.property.c_str(), rp.expect.cls.c_str(),
           rp.expect.signature.c_str());
    return 0;
}

static int cmd_one(const Options& o)
{
    RunSpec s;
    s.profile = o.profile;
    s.run_seed = o.seed;
    s.armed = o.armed;
    s.family = o.family;
    s.thorough = o.thorough;
    s.explain = o.explain;
    s.simplify = o.simplify;
    std::istringstream is(o.dropped);
    int d;
    while (is >> d)
        s.dropped.insert(d);
    RunResult r = run_one(s);
    for (auto& e : r.explain)
        printf("%s\n", e.c_str());
    for (auto& v : r.violations)
        printf("violation property=%s class=%s signature=%s step=%d\n  %s\n", v.property.c_str(), v.cls.c_str(), v.signature.c_str(),
               v.step, v.detail.c_str());
    for (auto& [k, v] : r.counters)
        printf("  %s = %llu\n", k.c_str(), (unsigned long long)v);
    for (auto& x : r.samples)
        printf("sample: %s\n", x.c_str());
    printf("nsteps=%d hash=%llu done=%d status=%d\n", r.nsteps, (unsigned long long)r.hash, r.done, r.status);
    if (!r.stderr_text.empty())
        printf("--- stderr ---\n%s\n", r.stderr_text.substr(0, 8000).c_str());
    return r.violations.empty() ? 0 : 1;
}

/** debugging aid: one call on a file, in process, prints the canonical record */
static int cmd_parse(const std::string& file, int entry, int backend, bool newxta, int part, bool summary)
{
    std::ifstream f(file, std::ios::binary);
    std::stringstream ss;
    ss << f.rdbuf();
    seams_init();
    CallSpec c;
    c.entry = entry;
    c.backend = backend;
    c.newxta = newxta;
    c.part = part;
    c.bytes = ss.str();
    Session s;
    CallResult r = run_call(s, c, 0);
    if (r.threw)
        printf("threw %s: %s\n", r.exc_class.c_str(), r.exc_what.c_str());
    printf("%s\n", record_of(s, c, r).c_str());
    if (summary && s.doc)
        printf("--- summary ---\n%s", summarize_document(*s.doc).c_str());
    if (s.doc) {
        printf("--- monitors ---\nC08: %s\nC06a: %s\n", check_c08(*s.doc, false).c_str(), check_c06a(*s.doc, c.bytes, c.is_xml()).c_str());
    }
    printf("allocs=%llu io=%llu\n", (unsigned long long)r.ctx.allocs, (unsigned long long)r.ctx.io_calls);
    return 0;
}

int runner_main(int argc, char** argv)
{
    Options o;
    if (argc >= 3 && std::string{argv[1]} == "parse") {
        int entry = argc > 3 ? atoi(argv[3]) : 0, backend = argc > 4 ? atoi(argv[4]) : 0;
        return cmd_parse(argv[2], entry, backend, argc > 5 ? atoi(argv[5]) != 0 : true, argc > 6 ? atoi(argv[6]) : 0, true);
    }
    if (argc < 2) {
        fprintf(stderr,
                "usage: utapsim run|determinism|one --profile P [--seed S] [--runs N] [--workers W] [--budget-s T] [--armed C01,C08]\n"
                "       utapsim --replay FILE\n");
        return 2;
    }
    int i = 1;
    if (std::string{argv[1]} == "--replay" && argc >= 3) {
        o.cmd = "replay";
        o.replay_file = argv[2];
        i = 3;
    } else {
        o.cmd = argv[1];
        i = 2;
    }
    if (const char* e = getenv("VERIF_REPO"))
        o.repo = e;
    for (; i < argc; ++i) {
        std::string a = argv[i];
        auto next = [&]() -> std::string { return i + 1 < argc ? argv[++i] : ""; };
        if (a == "--profile")
            o.profile = next();
        else if (a == "--seed")
            o.seed = strtoull(next().c_str(), nullptr, 10);
        else if (a == "--runs")
            o.runs = strtoull(next().c_str(), nullptr, 10);
        else if (a == "--workers")
            o.workers = atoi(next().c_str());
        else if (a == "--budget-s")
            o.budget_s = atof(next().c_str());
        else if (a == "--armed") {
            for (auto& p : split(next(), ','))
                if (!p.empty())
                    o.armed.insert(p);
        } else if (a == "--family")
            o.family = next();
        else if (a == "--thorough")
            o.thorough = true;
        else if (a == "--replay-dir")
            o.replay_dir = next();
        else if (a == "--repo")
            o.repo = next();
        else if (a == "--max-violations")
            o.max_violations = atoi(next().c_str());
        else if (a == "--no-shrink")
            o.no_shrink = true;
        else if (a == "--explain")
            o.explain = true;
        else if (a == "--dropped")
            o.dropped = next();
        else if (a == "--simplify")
            o.simplify = atoi(next().c_str());
        else if (a == "--nontrivial-key")
            o.nontrivial_key = next();
        else if (a == "--hash-file")
            o.hash_file = next();
        else if (a == "--replay-tag")
            o.replay_tag = next();
        else {
            fprintf(stderr, "unknown argument %s\n", a.c_str());
            return 2;
        }
    }
    load_corpus(o.repo);
    if (o.cmd == "run")
        return cmd_run(o);
    if (o.cmd == "determinism")
        return cmd_determinism(o);
    if (o.cmd == "replay")
        return cmd_replay(o);
    if (o.cmd == "one")
        return cmd_one(o);
    fprintf(stderr, "unknown command %s\n", o.cmd.c_str());
    return 2;
}

}  // namespace sim
