#include "dump.h"

#include "utap/statement.h"

#include <libxml/parser.h>
#include <libxml/tree.h>
#include <libxml/xpath.h>

#include <algorithm>
#include <cstring>
#include <map>
#include <sstream>

using namespace UTAP;
using namespace UTAP::Constants;

namespace sim {

void (*g_on_traversal)(int delta) = nullptr;


namespace {

struct Dumper
{
    Document& doc;
    const DumpOpts& o;
    std::ostringstream os;
    Dumper(Document& d, const DumpOpts& opts): doc{d}, o{opts} {}

    static std::string esc(const std::string& s)
    {
        std::string r;
        for (unsigned char c : s) {
            if (c == '\n')
                r += "\\n";
            else if (c == '\r')
                r += "\\r";
            else if (c == '\\')
                r += "\\\\";
            else if (c < 32 || c > 126) {
                char b[8];
                snprintf(b, sizeof b, "\\x%02x", c);
                r += b;
            } else
                r += (char)c;
        }
        return r;
    }

    // position.h: "Both INT_MAX indicate an unknown location": a position is unknown only when start AND end carry
    // the sentinel. A real token that merely starts or ends at offset 2^31-1 is an ordinary position (the library
    // itself never tests the sentinel), so it is printed like any other.
    static bool is_unknown(const position_t& p)
    {
        return p.start == (uint32_t)position_t::unknown_pos && p.end == (uint32_t)position_t::unknown_pos;
    }
    std::string pos1(uint32_t p)
    {
        try {
            const auto& l = doc.find_position(p);
            std::string r;
            if (!o.mask_path.empty() && l.path && *l.path == o.mask_path)
                return "<in-masked-block>";
            if (o.paths)
                r += (l.path ? *l.path : std::string{"<null>"}) + ":";
            r += std::to_string(l.line) + ":" + std::to_string(p - l.position);
            return r;
        } catch (const std::logic_error&) {
            return "noindex";
        }
    }
    std::string pos(const position_t& p)
    {
        if (!o.positions)
            return "";
        if (is_unknown(p))
            return "@?-?";
        return "@" + pos1(p.start) + "-" + pos1(p.end);
    }

    void type(const type_t& t, int depth)
    {
        if (t == type_t{}) {
            os << "T0";
            return;
        }
        auto k = t.get_kind();
        os << "T" << (int)k;
        if (k == UNKNOWN) {
            auto e = t.get_expression();
            if (!e.empty()) {
                os << "=";
                expr(e, depth + 1, false);
            }
            return;
        }
        size_t n = t.size();
        if (n == 0)
            return;
        if (depth > 6 || ((k == PROCESS || k == INSTANCE || k == LSC_INSTANCE || k == PROCESS_SET) && depth > 1)) {
            os << "[" << n << "...]";
            return;
        }
        os << "[";
        for (size_t i = 0; i < n; ++i) {
            if (i)
                os << ",";
            const auto& lab = t.get_label(i);
            if (!lab.empty())
                os << lab << ":";
            type(t.get(i), depth + 1);
        }
        os << "]";
    }

    void symbol(const symbol_t& s, int depth)
    {
        if (s == symbol_t{}) {
            os << "sym0";
            return;
        }
        os << s.get_name();
        if (o.positions)
            os << "@" << (is_unknown(s.get_position()) ? std::string{"?"} : pos1(s.get_position().start));
        os << ":";
        type(s.get_type(), depth + 4);
    }

    void expr(const expression_t& e, int depth, bool root)
    {
        if (e.empty()) {
            os << "()";
            return;
        }
        auto k = e.get_kind();
        os << "(" << (int)k;
        // the type annotation of the node (set by the builder, refined by the type checker): kind only, the full type of
        // symbols is printed where the symbol is
        {
            auto ty = e.get_type();
            os << ":" << (ty == type_t{} ? 0 : (int)ty.get_kind());
        }
        if (root)
            os << pos(e.get_position());
        switch (k) {
        case CONSTANT: {
            auto t = e.get_type();
            if (t.is_string())
                os << " s\"" << esc(std::string{e.get_string_value()}) << "\"";
            else if (t.is(DOUBLE)) {
                char b[40];
                snprintf(b, sizeof b, " d%.17g", e.get_double_value());
                os << b;
            } else if (t.is_integral())
                os << " " << e.get_value();
            else
                os << " c?";
            break;
        }
        case IDENTIFIER:
            os << " ";
            symbol(e.get_symbol(), depth);
            break;
        case DOT: os << " ." << e.get_index(); break;
        case SYNC: os << " sync" << (int)e.get_sync(); break;
        default: break;
        }
        if (depth > 200) {
            os << " ...)";
            return;
        }
        size_t n = e.get_size();
        for (size_t i = 0; i < n; ++i) {
            os << " ";
            expr(e.get(i), depth + 1, false);
        }
        os << ")";
    }

    void frame(const frame_t& f, const char* what)
    {
        os << what << "{";
        if (f == frame_t{}) {
            os << "null}";
            return;
        }
        for (uint32_t i = 0; i < f.get_size(); ++i) {
            if (i)
                os << "; ";
            symbol(f[i], 0);
        }
        os << "}";
    }

    struct StmtDump : StatementVisitor
    {
        Dumper& d;
        int depth{0};
        explicit StmtDump(Dumper& d): d{d} {}
        void sub(Statement* s)
        {
            if (!s) {
                d.os << "<nostmt>";
                return;
            }
            if (depth > 100) {
                d.os << "<deep>";
                return;
            }
            ++depth;
            s->accept(this);
            --depth;
        }
        void block(BlockStatement* b)
        {
            d.frame(b->get_frame(), "frame");
            d.decls(*b, false, -1);
            for (auto& s : *b) {
                d.os << " ";
                sub(s.get());
            }
        }
        int32_t visitEmptyStatement(EmptyStatement*) override
        {
            d.os << "[empty]";
            return 0;
        }
        int32_t visitExprStatement(ExprStatement* s) override
        {
            d.os << "[expr ";
            d.expr(s->expr, 0, true);
            d.os << "]";
            return 0;
        }
        int32_t visitAssertStatement(AssertStatement* s) override
        {
            d.os << "[assert ";
            d.expr(s->expr, 0, true);
            d.os << "]";
            return 0;
        }
        int32_t visitForStatement(ForStatement* s) override
        {
            d.os << "[for ";
            d.expr(s->init, 0, true);
            d.expr(s->cond, 0, true);
            d.expr(s->step, 0, true);
            sub(s->stat.get());
            d.os << "]";
            return 0;
        }
        int32_t visitIterationStatement(IterationStatement* s) override
        {
            d.os << "[iter ";
            d.symbol(s->symbol, 0);
            d.os << " ";
            sub(s->stat.get());
            d.os << "]";
            return 0;
        }
        int32_t visitWhileStatement(WhileStatement* s) override
        {
            d.os << "[while ";
            d.expr(s->cond, 0, true);
            sub(s->stat.get());
            d.os << "]";
            return 0;
        }
        int32_t visitDoWhileStatement(DoWhileStatement* s) override
        {
            d.os << "[do ";
            sub(s->stat.get());
            d.expr(s->cond, 0, true);
            d.os << "]";
            return 0;
        }
        int32_t visitBlockStatement(BlockStatement* s) override
        {
            d.os << "[block ";
            block(s);
            d.os << "]";
            return 0;
        }
        int32_t visitSwitchStatement(SwitchStatement* s) override
        {
            d.os << "[switch ";
            d.expr(s->cond, 0, true);
            block(s);
            d.os << "]";
            return 0;
        }
        int32_t visitCaseStatement(CaseStatement* s) override
        {
            d.os << "[case ";
            d.expr(s->cond, 0, true);
            block(s);
            d.os << "]";
            return 0;
        }
        int32_t visitDefaultStatement(DefaultStatement* s) override
        {
            d.os << "[default ";
            block(s);
            d.os << "]";
            return 0;
        }
        int32_t visitIfStatement(IfStatement* s) override
        {
            d.os << "[if ";
            d.expr(s->cond, 0, true);
            sub(s->trueCase.get());
            if (s->falseCase) {
                d.os << " else ";
                sub(s->falseCase.get());
            }
            d.os << "]";
            return 0;
        }
        int32_t visitBreakStatement(BreakStatement*) override
        {
            d.os << "[break]";
            return 0;
        }
        int32_t visitContinueStatement(ContinueStatement*) override
        {
            d.os << "[continue]";
            return 0;
        }
        int32_t visitReturnStatement(ReturnStatement* s) override
        {
            d.os << "[return ";
            d.expr(s->value, 0, true);
            d.os << "]";
            return 0;
        }
    };

    void symset(const std::set<symbol_t>& s, const char* what)
    {
        std::vector<std::string> names;
        for (auto& x : s)
            names.push_back(x == symbol_t{} ? std::string{"sym0"} : x.get_name());
        std::sort(names.begin(), names.end());
        os << what << "{";
        for (auto& n : names)
            os << n << " ";
        os << "}";
    }

    static bool is_builtin_name(const std::string& n)
    {
        static const char* names[] = {"INT8_MIN",  "INT8_MAX", "UINT8_MAX", "INT16_MIN", "INT16_MAX", "UINT16_MAX",
                                      "INT32_MIN", "INT32_MAX", "int8_t",   "uint8_t",   "int16_t",   "uint16_t",
                                      "int32_t",   "FLT_MIN",  "FLT_MAX",   "DBL_MIN",   "DBL_MAX",   "M_PI",
                                      "M_PI_2",    "M_PI_4",   "M_E",       "M_LOG2E",   "M_LOG10E",  "M_LN2",
                                      "M_LN10",    "M_1_PI",   "M_2_PI",    "M_2_SQRTPI", "M_SQRT2",  "M_SQRT1_2"};
        for (auto* b : names)
            if (n == b)
                return true;
        return false;
    }
    /** the built-in declarations are the leading symbols of the global frame (both front ends parse them first) */
    bool builtin_sym(const symbol_t& s)
    {
        if (o.builtins || s == symbol_t{})
            return false;
        if (!is_builtin_name(s.get_name()))
            return false;
        auto& gf = doc.get_globals().frame;
        if (gf == frame_t{})
            return false;
        for (uint32_t i = 0; i < gf.get_size() && i < 30; ++i) {
            if (!is_builtin_name(gf[i].get_name()))
                return false;
            if (gf[i] == s)
                return true;
        }
        return false;
    }

    /** prefix = false: all; otherwise only the first keep_syms frame symbols, keep_vars variables, keep_funs functions */
    void decls(declarations_t& d, bool global, int keep_or_all)
    {
        const bool gprefix = keep_or_all < 0 && global && o.mask_decl_templ >= 0 && o.gkeep_syms >= 0;
        const bool prefix = keep_or_all >= 0 || gprefix;
        const int keep = gprefix ? o.gkeep_syms : (prefix ? o.keep_syms : -1);
        const int keep_vars = gprefix ? o.gkeep_vars : o.keep_vars, keep_funs = gprefix ? o.gkeep_funs : o.keep_funs;
        os << "\n  frame{";
        if (d.frame == frame_t{})
            os << "null";
        else {
            int shown = 0;
            for (uint32_t i = 0; i < d.frame.get_size(); ++i) {
                const auto& s = d.frame[i];
                if (global && builtin_sym(s))
                    continue;
                auto k = s.get_type().get_kind();
                // In the declaration-prefix comparison (C16) only declarations count: the symbols of templates,
                // instances and processes have types that mirror the *whole* frame of their template (so they
                // change legitimately when a later declaration is lost) and come from blocks that follow.
                if (o.mask_decl_templ != -2 && (k == INSTANCE || k == LSC_INSTANCE || k == PROCESS || k == PROCESS_SET))
                    continue;
                if (keep >= 0 && shown >= keep)
                    break;
                ++shown;
                os << "\n    ";
                symbol(s, 0);
                (void)k;
            }
        }
        os << "}";
        int nv = 0;
        for (auto& v : d.variables) {
            if (global && builtin_sym(v.uid))
                continue;
            if (prefix && nv >= keep_vars)
                break;
            ++nv;
            os << "\n  var " << (v.uid == symbol_t{} ? std::string{"sym0"} : v.uid.get_name()) << " init=";
            expr(v.init, 0, true);
        }
        int nf = 0;
        for (auto& f : d.functions) {
            if (prefix && nf >= keep_funs)
                break;
            ++nf;
            os << "\n  fun ";
            symbol(f.uid, 0);
            symset(f.changes, " changes");
            symset(f.depends, " depends");
            for (auto& v : f.variables) {
                os << "\n    local " << v.uid.get_name() << " init=";
                expr(v.init, 0, true);
            }
            os << "\n    body ";
            if (f.body) {
                StmtDump sd{*this};
                sd.sub(f.body.get());
            } else
                os << "<null>";
        }
        if (prefix)
            return;
        for (auto& p : d.progress) {
            os << "\n  progress ";
            expr(p.guard, 0, true);
            expr(p.measure, 0, true);
        }
        for (auto& io : d.iodecl) {
            os << "\n  iodecl " << io.instanceName << " params=" << io.param.size() << " in=" << io.inputs.size()
               << " out=" << io.outputs.size() << " csp=" << io.csp.size();
            for (auto& e : io.param)
                expr(e, 0, false);
            for (auto& e : io.inputs)
                expr(e, 0, false);
            for (auto& e : io.outputs)
                expr(e, 0, false);
        }
        for (auto& g : d.ganttChart) {
            os << "\n  gantt " << g.name << " ";
            frame(g.parameters, "params");
            for (auto& m : g.mapping) {
                frame(m.parameters, " mp");
                expr(m.predicate, 0, true);
                expr(m.mapping, 0, true);
            }
        }
    }

    void instance(instance_t& i, const char* what)
    {
        os << "\n" << what << " " << (i.uid == symbol_t{} ? std::string{"sym0"} : i.uid.get_name());
        os << " type=";
        if (!(i.uid == symbol_t{})) {
            auto t = i.uid.get_type();
            os << "T" << (t == type_t{} ? -1 : (int)t.get_kind()) << "/" << (t == type_t{} ? 0 : t.size());
        }
        os << " unbound=" << i.unbound << " arguments=" << i.arguments
           << " templ=" << (i.templ ? (i.templ->uid == symbol_t{} ? "sym0" : i.templ->uid.get_name()) : "<null>") << " ";
        frame(i.parameters, "params");
        // mapping sorted by parameter index (the map itself is ordered by heap address)
        std::vector<std::pair<long, std::string>> rows;
        for (auto& [sym, e] : i.mapping) {
            long idx = -1;
            if (!(i.parameters == frame_t{})) {
                auto ix = i.parameters.get_index_of(sym);
                if (ix)
                    idx = (long)*ix;
            }
            Dumper sub{doc, o};
            sub.os << (sym == symbol_t{} ? std::string{"sym0"} : sym.get_name()) << "->";
            sub.expr(e, 0, true);
            rows.emplace_back(idx, sub.os.str());
        }
        std::sort(rows.begin(), rows.end());
        os << " mapping{";
        for (auto& r : rows)
            os << "#" << r.first << " " << r.second << "; ";
        os << "}";
        symset(i.restricted, " restricted");
    }

    bool masked(int t, char elem, int idx, const char* field) const
    {
        return o.mask_templ == t && o.mask_elem == elem && o.mask_index == idx && o.mask_field == field;
    }
    void label(int t, char elem, int idx, const char* field, const expression_t& e)
    {
        os << " " << field << "=";
        if (masked(t, elem, idx, field))
            os << "<masked>";
        else
            expr(e, 0, true);
    }

    void templ(template_t& t, int ti)
    {
        if (o.mask_decl_templ == ti) {
            // a faulted local declaration block: only the declarations that precede the fault are compared; the
            // template's own header (instantiated, init, ...) is filled in by blocks that follow
            os << "\ntemplate " << t.uid.get_name();
            decls(t, false, 0);
            return;
        }
        instance(t, "template");
        os << " isTA=" << t.is_TA << " instantiated=" << t.is_instantiated << " dynamic=" << t.dynamic
           << " defined=" << t.is_defined << " type=" << esc(t.type) << " mode=" << esc(t.mode)
           << " prechart=" << t.has_prechart;
        os << " init=" << (t.init == symbol_t{} ? std::string{"<none>"} : t.init.get_name());
        frame(t.template_set, " tset");
        decls(t, false, o.mask_decl_templ == ti ? 0 : -1);
        if (o.mask_decl_templ == ti)
            return;  // a faulted local declaration block: only its prefix is compared
        int li = 0;
        for (auto& l : t.locations) {
            os << "\n  loc#" << l.nr << " ";
            symbol(l.uid, 0);
            label(ti, 'L', li, "invariant", l.invariant);
            label(ti, 'L', li, "exprate", l.exp_rate);
            label(ti, 'L', li, "costrate", l.cost_rate);
            ++li;
        }
        for (auto& b : t.branchpoints) {
            os << "\n  bp#" << b.bpNr << " ";
            symbol(b.uid, 0);
        }
        int ei = 0;
        for (auto& e : t.edges) {
            os << "\n  edge#" << e.nr << " "
               << (e.src ? e.src->uid.get_name() : (e.srcb ? "b:" + e.srcb->uid.get_name() : std::string{"<none>"}))
               << "->"
               << (e.dst ? e.dst->uid.get_name() : (e.dstb ? "b:" + e.dstb->uid.get_name() : std::string{"<none>"}))
               << " control=" << e.control;
            if (!o.twin)
                os << " act=" << esc(e.actname);
            os << " ";
            if (masked(ti, 'E', ei, "select"))
                os << "select=<masked>";
            else
                frame(e.select, "select");
            label(ti, 'E', ei, "guard", e.guard);
            label(ti, 'E', ei, "sync", e.sync);
            label(ti, 'E', ei, "assign", e.assign);
            label(ti, 'E', ei, "prob", e.prob);
            ++ei;
        }
        for (auto& il : t.instances) {
            os << "\n  line#" << il.instance_nr;
            instance(il, "   iline");
        }
        for (auto& m : t.messages) {
            os << "\n  msg#" << m.nr << " loc=" << m.location << " pre=" << m.is_in_prechart
               << " src=" << (m.src ? (long)m.src->instance_nr : -1) << " dst=" << (m.dst ? (long)m.dst->instance_nr : -1);
            expr(m.label, 0, true);
        }
        for (auto& c : t.conditions) {
            os << "\n  cond#" << c.nr << " loc=" << c.location << " pre=" << c.is_in_prechart << " hot=" << c.isHot
               << " anchors=";
            for (auto* a : c.anchors)
                os << (a ? (long)a->instance_nr : -1) << ",";
            expr(c.label, 0, true);
        }
        for (auto& u : t.updates) {
            os << "\n  upd#" << u.nr << " loc=" << u.location << " pre=" << u.is_in_prechart
               << " anchor=" << (u.anchor ? (long)u.anchor->instance_nr : -1);
            expr(u.label, 0, true);
        }
        for (auto& e : t.dynamic_evals) {
            os << "\n  dyneval ";
            expr(e, 0, true);
        }
    }

    void diags()
    {
        auto v = view_diagnostics(doc);
        std::vector<std::string> rows;
        for (auto& d : v) {
            std::ostringstream r;
            r << (d.error ? "E " : "W ") << esc(d.msg) << " ctx=" << esc(d.ctx);
            if (!o.diag_as_multiset) {
                if (o.paths)
                    r << " path=" << d.path;
                if (d.unknown)
                    r << " pos=unknown";
                else
                    r << " " << d.sline << ":" << d.scol << "-" << d.eline << ":" << d.ecol;
            }
            rows.push_back(r.str());
        }
        if (o.diag_as_multiset)
            std::sort(rows.begin(), rows.end());
        for (auto& r : rows)
            os << "\n" << r;
    }

    void document()
    {
        if (o.diagnostics) {
            os << "diagnostics:";
            diags();
        }
        const auto& sm = doc.get_supported_methods();
        if (o.mask_decl_templ == -2 && !o.typechecked_only) {  // document-wide verdicts depend on every declaration, also on the faulted one
        os << "\nsupported: " << sm.symbolic << sm.stochastic << sm.concrete;
        os << "\nflags: prio=" << doc.has_priority_declaration() << " strictinv=" << doc.has_strict_invariants()
           << " stopwatch=" << doc.has_stop_watch()
           << " strictlow=" << doc.has_strict_lower_bound_on_controllable_edges()
           << " guardrecv=" << doc.has_clock_guard_recv_broadcast() << " sync=" << doc.get_sync_used()
           << " urgtrans=" << doc.has_urgent_transition() << " dyn=" << doc.has_dynamic_templates()
           << " allbcast=" << doc.all_broadcast() << " modified=" << doc.is_modified() << " obsTA=" << doc.obsTA;
        }
        os << "\nglobals:";
        if (o.mask_decl_templ == -1) {
            decls(doc.get_globals(), true, 0);
            return;  // a faulted global declaration block: only its prefix is compared
        }
        decls(doc.get_globals(), true, -1);
        if (o.mask_decl_templ >= 0) {
            // a faulted local declaration block: the globals and the prefix of that block
            int ti = 0;
            for (auto& t : doc.get_templates()) {
                if (ti == o.mask_decl_templ)
                    templ(t, ti);
                ++ti;
            }
            return;
        }
        os << "\nbefore=";
        expr(doc.get_before_update(), 0, true);
        os << " after=";
        expr(doc.get_after_update(), 0, true);
        int ti = 0;
        for (auto& t : doc.get_templates())
            templ(t, ti++);
        for (auto* t : doc.get_dynamic_templates())
            if (t)
                templ(*t, 1000 + ti++);
        // instances are reachable through the global frame only
        auto& gf = doc.get_globals().frame;
        if (!(gf == frame_t{})) {
            for (uint32_t i = 0; i < gf.get_size(); ++i) {
                auto s = gf[i];
                auto k = s.get_type().get_kind();
                if ((k == INSTANCE || k == LSC_INSTANCE) && s.get_data()) {
                    auto* inst = static_cast<instance_t*>(s.get_data());
                    bool is_templ = false;
                    for (auto& t : doc.get_templates())
                        if (static_cast<instance_t*>(&t) == inst)
                            is_templ = true;
                    for (auto* t : doc.get_dynamic_templates())
                        if (static_cast<instance_t*>(t) == inst)
                            is_templ = true;
                    if (!is_templ)
                        instance(*inst, k == INSTANCE ? "instance" : "lscinstance");
                }
            }
        }
        for (auto& p : doc.get_processes()) {
            instance(p, "process");
            os << " prio=" << doc.get_proc_priority(p.uid.get_name().c_str());
        }
        for (auto& cp : doc.get_chan_priorities()) {
            os << "\nchanprio ";
            expr(cp.head, 0, true);
            for (auto& [sep, e] : cp.tail) {
                os << " '" << sep << "' ";
                expr(e, 0, true);
            }
        }
        for (auto& opt : doc.get_options())
            os << "\noption " << esc(opt.name) << "=" << esc(opt.value);
        for (auto& q : doc.get_queries()) {
            os << "\nquery formula=" << esc(q.formula) << " comment=" << esc(q.comment) << " loc=" << esc(q.location);
            for (auto& opt : q.options)
                os << " opt " << esc(opt.name) << "=" << esc(opt.value);
            os << " expect type=" << (int)q.expectation.value_type << " status=" << (int)q.expectation.status
               << " value=" << esc(q.expectation.value);
            for (auto& r : q.expectation.resources)
                os << " res " << esc(r.name) << "=" << esc(r.value) << (r.unit ? "/" + esc(*r.unit) : std::string{});
        }
        os << "\nstrings=" << doc.get_strings().size();
    }
};

}  // namespace

std::vector<DiagView> view_diagnostics(Document& doc)
{
    TraversalScope traversal_scope;
    std::vector<DiagView> out;
    auto add = [&](const UTAP::error_t& e, bool err) {
        DiagView d;
        d.error = err;
        d.msg = e.msg;
        d.ctx = e.context;
        d.path = e.start.path ? *e.start.path : std::string{};
        d.sline = e.start.line;
        d.eline = e.end.line;
        d.scol = e.position.start - e.start.position;
        d.ecol = e.position.end - e.end.position;
        d.abs_start = e.position.start;
        d.abs_end = e.position.end;
        d.unknown = (e.position.start == (uint32_t)position_t::unknown_pos && e.position.end == (uint32_t)position_t::unknown_pos) ||
                    e.position.start < e.start.position || e.position.end < e.end.position;
        out.push_back(std::move(d));
    };
    for (auto& e : doc.get_errors())
        add(e, true);
    for (auto& w : doc.get_warnings())
        add(w, false);
    return out;
}

std::string dump_document(Document& doc, const DumpOpts& o)
{
    TraversalScope traversal_scope;
    Dumper d{doc, o};
    d.document();
    return d.os.str();
}

std::string dump_expr(Document& doc, const expression_t& e, const DumpOpts& o, bool root_pos)
{
    TraversalScope traversal_scope;
    Dumper d{doc, o};
    d.expr(e, 0, root_pos);
    return d.os.str();
}

std::string dump_diagnostics(Document& doc, const DumpOpts& o)
{
    TraversalScope traversal_scope;
    Dumper d{doc, o};
    d.diags();
    return d.os.str();
}

// ---------------------------------------------------------------------------------------------
// tags
// ---------------------------------------------------------------------------------------------
void collect_tags(const expression_t& e, std::set<int>& tags)
{
    if (e.empty())
        return;
    if (e.get_kind() == CONSTANT) {
        auto t = e.get_type();
        if (!t.is_string() && !t.is(DOUBLE) && t.is_integer()) {
            int v = e.get_value();
            if (v >= 100000)
                tags.insert(v);
        }
        return;
    }
    size_t n = e.get_size();
    for (size_t i = 0; i < n; ++i)
        collect_tags(e.get(i), tags);
}

void collect_tags(const type_t& t, std::set<int>& tags, int depth, bool through)
{
    if (t == type_t{} || depth > 8)
        return;
    if (!through && t.get_kind() == LABEL)
        return;  // a reference to a named type: the name is what the source says, not the definition
    if (t.get_kind() == UNKNOWN) {
        collect_tags(t.get_expression(), tags);
        return;
    }
    for (size_t i = 0; i < t.size(); ++i)
        collect_tags(t.get(i), tags, depth + 1, through);
}

void collect_tags(const frame_t& f, std::set<int>& tags, bool through)
{
    if (f == frame_t{})
        return;
    for (uint32_t i = 0; i < f.get_size(); ++i)
        collect_tags(f[i].get_type(), tags, 0, through);
}

// ---------------------------------------------------------------------------------------------
// structural summary (mirror / twin / writer oracles)
// ---------------------------------------------------------------------------------------------
namespace {
std::string tagstr(const std::set<int>& t)
{
    std::string s = "{";
    for (int v : t)
        s += std::to_string(v) + " ";
    s += "}";
    return s;
}
std::string etags(const expression_t& e)
{
    std::set<int> t;
    collect_tags(e, t);
    return tagstr(t);
}
std::string loc_flag(const symbol_t& s)
{
    auto t = s.get_type();
    if (t.is(URGENT))
        return "U";
    if (t.is(COMMITTED))
        return "C";
    return "-";
}
}  // namespace

namespace {
/** the statement skeleton of a function body: e expression, r return, a assert, - empty, b break, c continue,
 *  {..} block, i(then) / i(then|else), w(..) while, d(..) do, f(..) for, q(..) iteration, s(..) switch, k(..) case, o(..) default */
struct ShapeVisitor : StatementVisitor
{
    std::string s;
    int depth{0};
    void sub(Statement* st)
    {
        if (!st) {
            s += "0";
            return;
        }
        if (++depth > 100)
            s += "^";
        else
            st->accept(this);
        --depth;
    }
    void children(BlockStatement* b)
    {
        for (auto& c : *b)
            sub(c.get());
    }
    int32_t visitEmptyStatement(EmptyStatement*) override { s += "-"; return 0; }
    int32_t visitExprStatement(ExprStatement*) override { s += "e"; return 0; }
    int32_t visitAssertStatement(AssertStatement*) override { s += "a"; return 0; }
    int32_t visitForStatement(ForStatement* st) override { s += "f("; sub(st->stat.get()); s += ")"; return 0; }
    int32_t visitIterationStatement(IterationStatement* st) override { s += "q("; sub(st->stat.get()); s += ")"; return 0; }
    int32_t visitWhileStatement(WhileStatement* st) override { s += "w("; sub(st->stat.get()); s += ")"; return 0; }
    int32_t visitDoWhileStatement(DoWhileStatement* st) override { s += "d("; sub(st->stat.get()); s += ")"; return 0; }
    int32_t visitBlockStatement(BlockStatement* st) override { s += "{"; children(st); s += "}"; return 0; }
    int32_t visitSwitchStatement(SwitchStatement* st) override { s += "s("; children(st); s += ")"; return 0; }
    int32_t visitCaseStatement(CaseStatement* st) override { s += "k("; children(st); s += ")"; return 0; }
    int32_t visitDefaultStatement(DefaultStatement* st) override { s += "o("; children(st); s += ")"; return 0; }
    int32_t visitIfStatement(IfStatement* st) override
    {
        s += "i(";
        sub(st->trueCase.get());
        if (st->falseCase) {
            s += "|";
            sub(st->falseCase.get());
        }
        s += ")";
        return 0;
    }
    int32_t visitBreakStatement(BreakStatement*) override { s += "b"; return 0; }
    int32_t visitContinueStatement(ContinueStatement*) override { s += "c"; return 0; }
    int32_t visitReturnStatement(ReturnStatement*) override { s += "r"; return 0; }
};
}  // namespace

std::string summarize_document(Document& doc)
{
    TraversalScope traversal_scope;
    std::ostringstream os;
    auto decl_list = [&](declarations_t& d, bool global) {
        for (auto& v : d.variables) {
            if (global && Dumper::is_builtin_name(v.uid.get_name()))
                continue;
            std::set<int> t;
            collect_tags(v.init, t);
            collect_tags(v.uid.get_type(), t);
            // array dimensions: a declarator built on the wrong type fragment shows as a scalar (or as someone else's array)
            int dims = 0;
            for (type_t ty = v.uid.get_type(); !(ty == type_t{}); ) {
                auto k = ty.get_kind();
                if (k == ARRAY) {
                    ++dims;
                    ty = ty.get(0);
                } else if (ty.size() == 1 && (ty.is_prefix() || k == REF || k == LABEL))
                    ty = ty.get(0);
                else
                    break;
            }
            os << "  var " << v.uid.get_name() << " dims=" << dims << " " << tagstr(t) << "\n";
        }
        for (auto& f : d.functions) {
            if (f.uid == symbol_t{})
                continue;
            // the tags found anywhere in the function: local initialisers and every statement of the body
            const DumpOpts fopts;  // (the Dumper keeps a reference)
            Dumper fd{doc, fopts};
            for (auto& v : f.variables)
                fd.expr(v.init, 0, false);
            if (f.body) {
                Dumper::StmtDump sd{fd};
                sd.sub(f.body.get());
            }
            std::set<int> ft;
            {
                const std::string txt = fd.os.str();
                for (size_t i = 0; i < txt.size();) {
                    if (std::isdigit((unsigned char)txt[i]) && (i == 0 || txt[i - 1] == ' ' || txt[i - 1] == '(')) {
                        size_t j = i;
                        long long val = 0;
                        while (j < txt.size() && std::isdigit((unsigned char)txt[j]) && j - i < 12)
                            val = val * 10 + (txt[j++] - '0');
                        if (val >= 100000 && val < 100000000 && (j == txt.size() || txt[j] == ')' || txt[j] == ' '))
                            ft.insert((int)val);
                        i = j;
                    } else
                        ++i;
                }
            }
            ShapeVisitor shape;
            if (f.body)
                shape.sub(f.body.get());
            os << "  fun " << f.uid.get_name() << " " << tagstr(ft) << " shape=" << shape.s << "\n";
        }
        if (!(d.frame == frame_t{}))
            for (uint32_t i = 0; i < d.frame.get_size(); ++i) {
                auto s = d.frame[i];
                if (s.get_type().get_kind() == TYPEDEF) {
                    if (global && Dumper::is_builtin_name(s.get_name()))
                        continue;
                    std::set<int> t;
                    collect_tags(s.get_type(), t);
                    os << "  typedef " << s.get_name() << " " << tagstr(t) << "\n";
                }
            }
    };
    os << "globals\n";
    decl_list(doc.get_globals(), true);
    for (auto& t : doc.get_templates()) {
        os << "template " << t.uid.get_name() << "\n";
        if (!(t.parameters == frame_t{}))
            for (uint32_t i = 0; i < t.parameters.get_size(); ++i) {
                std::set<int> tg;
                collect_tags(t.parameters[i].get_type(), tg);
                os << "  param " << t.parameters[i].get_name() << " "
                   << (t.parameters[i].get_type().is(REF) ? "ref" : "val") << " " << tagstr(tg) << "\n";
            }
        decl_list(t, false);
        for (auto& l : t.locations) {
            std::set<int> inv;
            collect_tags(l.invariant, inv);
            collect_tags(l.cost_rate, inv);
            os << "  loc " << l.uid.get_name() << " " << loc_flag(l.uid) << " inv=" << tagstr(inv)
               << " rate=" << etags(l.exp_rate) << "\n";
        }
        for (auto& b : t.branchpoints)
            os << "  bp " << b.uid.get_name() << "\n";
        // endpoints are identified by object, not by name: two templates may use the same location names, and an
        // edge attached to the namesake in another template must not pass as faithful
        auto own_loc = [&](const location_t* l) -> std::string {
            for (auto& x : t.locations)
                if (&x == l)
                    return x.uid.get_name();
            return "<foreign location " + l->uid.get_name() + ">";
        };
        auto own_bp = [&](const branchpoint_t* b) -> std::string {
            for (auto& x : t.branchpoints)
                if (&x == b)
                    return x.uid.get_name();
            return "<foreign branchpoint " + b->uid.get_name() + ">";
        };
        os << "  init ";
        if (t.init == symbol_t{})
            os << "<none>";
        else if (t.init.get_data() && t.init.get_type().is_location())
            os << own_loc(static_cast<const location_t*>(t.init.get_data()));
        else
            os << t.init.get_name();
        os << "\n";
        for (auto& e : t.edges) {
            std::set<int> sel;
            collect_tags(e.select, sel);
            os << "  edge " << (e.src ? own_loc(e.src) : (e.srcb ? own_bp(e.srcb) : std::string{"<none>"})) << " -> "
               << (e.dst ? own_loc(e.dst) : (e.dstb ? own_bp(e.dstb) : std::string{"<none>"}))
               << " ctrl=" << e.control << " select=";
            if (!(e.select == frame_t{}))
                for (uint32_t i = 0; i < e.select.get_size(); ++i)
                    os << e.select[i].get_name() << ",";
            os << tagstr(sel) << " guard=" << etags(e.guard) << " sync=" << etags(e.sync);
            if (!e.sync.empty())
                os << (e.sync.get_kind() == SYNC ? (e.sync.get_sync() == SYNC_BANG ? "!" : (e.sync.get_sync() == SYNC_QUE ? "?" : "~")) : "#");
            os << " assign=" << etags(e.assign) << " prob=" << etags(e.prob) << "\n";
        }
    }
    // channel priority lists: "default" is the empty expression, wherever it stands
    for (auto& cp : doc.get_chan_priorities()) {
        auto nm = [](const expression_t& e) -> std::string {
            if (e.empty())
                return "default";
            expression_t x = e;
            while (!x.empty() && x.get_kind() != IDENTIFIER && x.get_size() > 0)
                x = x[0];
            return !x.empty() && x.get_kind() == IDENTIFIER ? x.get_symbol().get_name() : std::string{"?"};
        };
        os << "chanprio " << nm(cp.head);
        for (auto& [sep, e] : cp.tail)
            os << " " << sep << " " << nm(e);
        os << "\n";
    }
    for (auto& p : doc.get_processes()) {
        os << "process " << p.uid.get_name() << " of " << (p.templ ? p.templ->uid.get_name() : "<null>")
           << " unbound=" << p.unbound << " prio=" << doc.get_proc_priority(p.uid.get_name().c_str()) << "\n";
        if (!(p.parameters == frame_t{}))
            for (uint32_t i = 0; i < p.parameters.get_size(); ++i) {
                auto it = p.mapping.find(p.parameters[i]);
                os << "  #" << i << " " << p.parameters[i].get_name() << " = ";
                if (it == p.mapping.end())
                    os << "<unbound>";
                else {
                    os << etags(it->second);
                    auto& a = it->second;
                    if (!a.empty() && a.get_kind() == IDENTIFIER)
                        os << a.get_symbol().get_name();
                }
                os << "\n";
            }
    }
    return os.str();
}

// ---------------------------------------------------------------------------------------------
// C08
// ---------------------------------------------------------------------------------------------
namespace {
struct C08
{
    Document& doc;
    std::string why;
    explicit C08(Document& d): doc{d} {}
    bool fail(const std::string& s)
    {
        if (why.empty())
            why = s;
        return false;
    }
    template <class T>
    void own(T& obj, const symbol_t& uid, const char* what, const std::string& where)
    {
        if (uid == symbol_t{}) {
            fail(std::string{what} + " without symbol in " + where);
            return;
        }
        if (uid.get_data() != (const void*)&obj)
            fail(std::string{what} + " '" + uid.get_name() + "' is not the user object of its own symbol (" + where +
                 ")");
    }
    void decls(declarations_t& d, const std::string& where)
    {
        for (auto& v : d.variables)
            own(v, v.uid, "variable", where);
        for (auto& f : d.functions) {
            own(f, f.uid, "function", where);
            for (auto& v : f.variables)
                own(v, v.uid, "function-local variable", where + "/" + f.uid.get_name());
        }
    }
    void inst(instance_t& i, const char* what, bool arity)
    {
        const std::string nm = i.uid == symbol_t{} ? "?" : i.uid.get_name();
        if (i.parameters == frame_t{}) {
            if (i.unbound != 0 || !i.mapping.empty())
                fail(std::string{what} + " '" + nm + "' has no parameter frame but unbound/mapping set");
            return;
        }
        size_t n = i.parameters.get_size();
        if (n < i.unbound) {
            fail(std::string{what} + " '" + nm + "' has fewer parameters than unbound parameters");
            return;
        }
        if (arity && !(i.uid == symbol_t{})) {
            auto t = i.uid.get_type();
            auto k = t.get_kind();
            if ((k == INSTANCE || k == LSC_INSTANCE) && t.size() != i.unbound)
                fail(std::string{what} + " '" + nm + "' has type arity " + std::to_string(t.size()) + " but " +
                     std::to_string(i.unbound) + " unbound parameters");
        }
        // a process that still has free parameters is a set of processes, one per valuation of exactly those parameters
        if (!(i.uid == symbol_t{}) && i.uid.get_type().get_kind() == PROCESS_SET && i.uid.get_type().size() != i.unbound)
            fail(std::string{what} + " '" + nm + "' is a process set of arity " + std::to_string(i.uid.get_type().size()) + " but has " +
                 std::to_string(i.unbound) + " unbound parameters");
        // mapping keys == parameters[unbound..]
        size_t bound = n - i.unbound;
        if (i.mapping.size() != bound) {
            fail(std::string{what} + " '" + nm + "' maps " + std::to_string(i.mapping.size()) + " parameters but has " +
                 std::to_string(bound) + " bound parameters");
            return;
        }
        for (size_t k = 0; k < n; ++k) {
            bool has = i.mapping.find(i.parameters[k]) != i.mapping.end();
            if (k < i.unbound && has)
                fail(std::string{what} + " '" + nm + "' maps unbound parameter #" + std::to_string(k));
            if (k >= i.unbound && !has)
                fail(std::string{what} + " '" + nm + "' does not map bound parameter #" + std::to_string(k));
        }
    }
    void templ(template_t& t, bool strict_init)
    {
        const std::string nm = t.uid == symbol_t{} ? "?" : t.uid.get_name();
        own(static_cast<instance_t&>(t), t.uid, "template", "document");
        if (t.templ != &t)
            fail("template '" + nm + "' does not refer to itself as its template");
        inst(t, "template", true);
        decls(t, nm);
        int32_t k = 0;
        for (auto& l : t.locations) {
            own(l, l.uid, "location", nm);
            if (l.nr != k)
                fail("location number " + std::to_string(l.nr) + " at index " + std::to_string(k) + " in " + nm);
            ++k;
        }
        for (auto& b : t.branchpoints)
            own(b, b.uid, "branchpoint", nm);
        auto in_locs = [&](location_t* p) {
            for (auto& l : t.locations)
                if (&l == p)
                    return true;
            return false;
        };
        auto in_bps = [&](branchpoint_t* p) {
            for (auto& b : t.branchpoints)
                if (&b == p)
                    return true;
            return false;
        };
        k = 0;
        for (auto& e : t.edges) {
            std::string en = "edge #" + std::to_string(k) + " of " + nm;
            if (e.nr != k)
                fail(en + " has number " + std::to_string(e.nr));
            if ((e.src != nullptr) == (e.srcb != nullptr))
                fail(en + " does not have exactly one source");
            if ((e.dst != nullptr) == (e.dstb != nullptr))
                fail(en + " does not have exactly one target");
            if (e.src && !in_locs(e.src))
                fail(en + " source location is not in its own template");
            if (e.srcb && !in_bps(e.srcb))
                fail(en + " source branchpoint is not in its own template");
            if (e.dst && !in_locs(e.dst))
                fail(en + " target location is not in its own template");
            if (e.dstb && !in_bps(e.dstb))
                fail(en + " target branchpoint is not in its own template");
            ++k;
        }
        if (strict_init && t.is_TA) {
            bool ok = false;
            if (!(t.init == symbol_t{}))
                for (auto& l : t.locations)
                    if (l.uid == t.init)
                        ok = true;
            if (!ok)
                fail("template '" + nm + "' has no initial location among its own locations");
        }
    }
};
}  // namespace

std::string check_c08(Document& doc, bool ok_no_errors)
{
    TraversalScope traversal_scope;
    C08 c{doc};
    c.decls(doc.get_globals(), "globals");
    for (auto& t : doc.get_templates()) {
        if (!t.is_TA)
            continue;  // LSC templates copy variables between templates by design; out of the property's scope
        c.templ(t, ok_no_errors);
    }
    // (a dynamic template that was declared but never defined has no body at all, hence no initial location)
    for (auto* t : doc.get_dynamic_templates())
        if (t)
            c.templ(*t, ok_no_errors && t->is_defined);
    // the dynamic templates must be reachable: the accessor and the "has any" predicate describe the same list
    if (doc.has_dynamic_templates() != !doc.get_dynamic_templates().empty())
        return "the document says has_dynamic_templates()=" + std::to_string(doc.has_dynamic_templates()) + " but get_dynamic_templates() lists " +
               std::to_string(doc.get_dynamic_templates().size());
    for (auto* t : doc.get_dynamic_templates())
        if (!t)
            return "get_dynamic_templates() contains a null entry";
    auto& gf = doc.get_globals().frame;
    bool has_lsc = false;
    for (auto& t : doc.get_templates())
        if (!t.is_TA)
            has_lsc = true;
    if (!(gf == frame_t{})) {
        for (uint32_t i = 0; i < gf.get_size(); ++i) {
            auto s = gf[i];
            auto k = s.get_type().get_kind();
            if (k == INSTANCE && s.get_data()) {
                auto* inst = static_cast<instance_t*>(s.get_data());
                bool is_templ = false;
                for (auto& t : doc.get_templates())
                    if (static_cast<instance_t*>(&t) == inst)
                        is_templ = true;
                for (auto* t : doc.get_dynamic_templates())
                    if (static_cast<instance_t*>(t) == inst)
                        is_templ = true;
                if (is_templ)
                    continue;
                if (!(inst->uid == s))
                    c.fail("instance symbol '" + s.get_name() + "' points to an object with another symbol");
                c.inst(*inst, "instance", true);
            }
        }
    }
    if (!has_lsc)
        for (auto& p : doc.get_processes()) {
            c.own(p, p.uid, "process", "document");
            c.inst(p, "process", false);
        }
    return c.why;
}

// ---------------------------------------------------------------------------------------------
// C06a
// ---------------------------------------------------------------------------------------------
namespace {
struct XmlDoc
{
    xmlDocPtr doc{nullptr};
    ~XmlDoc()
    {
        if (doc)
            xmlFreeDoc(doc);
    }
};
void silence(void*, const char*, ...) {}

std::vector<size_t> line_lengths(const std::string& text)
{
    std::vector<size_t> v;
    size_t start = 0;
    for (size_t i = 0; i < text.size(); ++i)
        if (text[i] == '\n') {
            v.push_back(i - start);
            start = i + 1;
        }
    v.push_back(text.size() - start);
    return v;
}
}  // namespace

std::string check_c06a(Document& doc, const std::string& delivered, bool xml)
{
    TraversalScope traversal_scope;
    auto diags = view_diagnostics(doc);
    if (diags.empty())
        return "";
    XmlDoc x;
    xmlXPathContextPtr ctx = nullptr;
    if (xml) {
        xmlSetGenericErrorFunc(nullptr, silence);
        x.doc = xmlReadMemory(delivered.data(), (int)delivered.size(), "", nullptr,
                              XML_PARSE_NOCDATA | XML_PARSE_NONET | XML_PARSE_NOERROR | XML_PARSE_NOWARNING);
        if (!x.doc)
            return "";  // not well-formed: the clause about XPaths is not evaluable
        ctx = xmlXPathNewContext(x.doc);
    }
    std::string why;
    for (auto& d : diags) {
        std::string where = (d.error ? "error '" : "warning '") + d.msg + "'";
        std::vector<size_t> lens;
        bool element_level = false;
        if (xml) {
            if (d.path.empty()) {
                why = where + " has an empty path in an XML model";
                break;
            }
            auto* res = xmlXPathEvalExpression((const xmlChar*)d.path.c_str(), ctx);
            int n = (res && res->nodesetval) ? res->nodesetval->nodeNr : 0;
            if (n != 1) {
                why = where + ": path '" + d.path + "' selects " + std::to_string(n) + " elements";
                if (res)
                    xmlXPathFreeObject(res);
                break;
            }
            xmlNodePtr node = res->nodesetval->nodeTab[0];
            // the text the grammar saw is the first text child (if any)
            std::string text;
            bool has_text = false;
            for (xmlNodePtr c = node->children; c; c = c->next) {
                if (c->type == XML_TEXT_NODE || c->type == XML_CDATA_SECTION_NODE) {
                    if (c->content)
                        text += (const char*)c->content;
                    has_text = true;
                } else if (has_text)
                    break;
                else if (c->type == XML_ELEMENT_NODE)
                    break;
            }
            xmlXPathFreeObject(res);
            lens = line_lengths(text);
            element_level = true;  // a dummy one-character position is legal on any element
        } else {
            if (!d.path.empty()) {
                why = where + " has path '" + d.path + "' for plain-text input";
                break;
            }
            lens = line_lengths(delivered);
        }
        if (d.unknown) {
            why = where + " has an unknown position";
            break;
        }
        auto in_line = [&](unsigned line, unsigned col) {
            if (line < 1 || line > lens.size())
                return false;
            size_t lim = lens[line - 1] + (element_level && line == 1 ? 1 : 0);
            return col <= lim;
        };
        if (!in_line(d.sline, d.scol)) {
            why = where + ": start " + std::to_string(d.sline) + ":" + std::to_string(d.scol) + " outside the text of '" +
                  d.path + "' (" + std::to_string(lens.size()) + " lines)";
            break;
        }
        if (!in_line(d.eline, d.ecol)) {
            why = where + ": end " + std::to_string(d.eline) + ":" + std::to_string(d.ecol) + " outside the text of '" +
                  d.path + "' (" + std::to_string(lens.size()) + " lines)";
            break;
        }
        if (std::make_pair(d.sline, d.scol) > std::make_pair(d.eline, d.ecol)) {
            why = where + ": start after end";
            break;
        }
    }
    if (ctx)
        xmlXPathFreeContext(ctx);
    return why;
}


std::string check_c06_block(Document& doc, size_t errors_before, size_t warnings_before, const std::string& text, const std::string& xpath,
                            uint32_t clock_before, uint32_t clock_after)
{
    TraversalScope traversal_scope;
    auto diags = view_diagnostics(doc);  // errors first, then warnings
    const size_t nerr = doc.get_errors().size();
    auto lens = line_lengths(text);
    if (lens.empty())
        lens.push_back(0);
    for (size_t i = 0; i < diags.size(); ++i) {
        const bool is_new = i < nerr ? i >= errors_before : (i - nerr) >= warnings_before;
        if (!is_new)
            continue;
        auto& d = diags[i];
        std::string where = (d.error ? "error '" : "warning '") + d.msg + "'";
        // a query parse may re-run the type checker over the model and so re-report errors of other blocks under their
        // own paths; those are judged where their block is loaded (C06a), not here
        if (d.path != xpath)
            continue;
        // ... and diagnostics about texts parsed into this document earlier (same path or not) lie before the stretch of
        // the position clock this call consumed
        if (!(d.abs_start >= clock_before && d.abs_start <= clock_after))
            continue;
        if (d.unknown)
            return where + " has an unknown position";
        auto in_line = [&](unsigned line, unsigned col) { return line >= 1 && line <= lens.size() && col <= lens[line - 1]; };
        if (!in_line(d.sline, d.scol))
            return where + ": start " + std::to_string(d.sline) + ":" + std::to_string(d.scol) + " outside the text (" + std::to_string(lens.size()) +
                   " lines, line length " + (d.sline >= 1 && d.sline <= lens.size() ? std::to_string(lens[d.sline - 1]) : std::string{"-"}) + ")";
        if (!in_line(d.eline, d.ecol))
            return where + ": end " + std::to_string(d.eline) + ":" + std::to_string(d.ecol) + " outside the text (" + std::to_string(lens.size()) +
                   " lines, line length " + (d.eline >= 1 && d.eline <= lens.size() ? std::to_string(lens[d.eline - 1]) : std::string{"-"}) + ")";
        if (std::make_pair(d.sline, d.scol) > std::make_pair(d.eline, d.ecol))
            return where + ": start after end";
    }
    return "";
}

}  // namespace sim
