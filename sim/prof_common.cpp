#include "prof_common.h"

#include "libparser.h"

#include <sstream>

namespace sim {

ProfileFn find_profile(const std::string& name)
{
    if (name == "history")
        return profile_history;
    if (name == "storm")
        return profile_storm;
    if (name == "mirror")
        return profile_mirror;
    if (name == "twin")
        return profile_twin;
    if (name == "blast")
        return profile_blast;
    if (name == "writer")
        return profile_writer;
    if (name == "selftest")
        return profile_selftest;
    return nullptr;
}
std::vector<std::string> profile_names() { return {"history", "storm", "mirror", "twin", "blast", "writer", "selftest"}; }

uint32_t clock_now() { return UTAP::tracker.position; }

void clock_jump(RunCtx& ctx, uint64_t target)
{
    uint32_t now = UTAP::tracker.position;
    if (target <= now || target > 0xffffffffull)
        return;  // forward only; a backward jump is not a reachable history
    ctx.count("clock-jumped-bytes", target - now);
    ctx.count("clock-jumps");
    UTAP::tracker.position = (uint32_t)target;
}

std::string first_word(const std::string& line)
{
    size_t a = line.find_first_not_of(' ');
    if (a == std::string::npos)
        return "";
    size_t b = line.find(' ', a);
    return line.substr(a, b == std::string::npos ? std::string::npos : b - a);
}

std::string first_diff(const std::string& a, const std::string& b)
{
    std::istringstream ia(a), ib(b);
    std::string la, lb;
    int n = 0;
    for (;;) {
        bool ha = (bool)std::getline(ia, la), hb = (bool)std::getline(ib, lb);
        ++n;
        if (!ha && !hb)
            return "";
        if (!ha)
            la = "<end>";
        if (!hb)
            lb = "<end>";
        if (la != lb) {
            // cut long lines around the first difference
            size_t k = 0;
            while (k < la.size() && k < lb.size() && la[k] == lb[k])
                ++k;
            size_t from = k > 60 ? k - 60 : 0;
            return "line " + std::to_string(n) + ": [" + la.substr(from, 200) + "] vs [" + lb.substr(from, 200) + "]";
        }
    }
}

Model small_or_drawn_model(RunCtx& ctx, Rng& rng, GenCfg& cfg, bool allow_dynamic, bool allow_old_syntax)
{
    cfg = draw_cfg(rng);
    if (allow_old_syntax && rng.chance(0.1)) {
        ctx.count("models-in-old-syntax");
        return gen_old_model(rng);
    }
    if (!allow_dynamic)
        cfg.dynamic_templates = false;
    if (ctx.simplify & SIMP_SMALLMODEL) {
        cfg.max_templates = 1;
        cfg.max_locs = 2;
        cfg.max_edges = 2;
        cfg.max_gdecls = 3;
        cfg.multiline = false;
    }
    return gen_model(rng, cfg);
}

CallSpec noise_call(RunCtx& ctx, Rng& rng, std::string& what)
{
    CallSpec c;
    int k = rng.below(10);
    if (rng.chance(0.12)) {
        // another client parses a single block, possibly one that is abandoned half-way
        size_t ti = rng.below((uint32_t)block_texts().size());
        c.bytes = block_texts()[ti];
        c.entry = E_PART;
        c.part = block_parts()[ti];
        c.backend = B_BUILDER;
        what = "block part=" + std::to_string(c.part);
        c.ceiling = default_ceiling(c.bytes.size());
        return c;
    }
    if (k < 4 && !corpus().empty()) {
        auto& m = corpus()[rng.below((uint32_t)corpus().size())];
        c.bytes = m.second;
        what = "corpus " + m.first;
        c.entry = rng.below(3);
    } else if (k < 8) {
        GenCfg cfg = draw_cfg(rng);
        cfg.max_templates = std::min(cfg.max_templates, 2);
        Model m = gen_model(rng, cfg);
        if (rng.chance(0.5)) {
            XmlKnobs kn = draw_knobs(rng);
            c.bytes = render_xml(m, kn, rng);
            c.entry = rng.below(3);
            what = "generated xml";
        } else {
            cfg.queries = false;
            c.bytes = render_xta(m);
            c.entry = rng.chance(0.5) ? E_XTA_STR : E_XTA_FILE;
            what = "generated xta";
        }
        if (rng.chance(0.4)) {
            std::string d;
            int f = rng.below(10);
            if (f < 7)
                c.bytes = c.is_xml() ? apply_random_token_fault_xml(c.bytes, rng, d) : apply_random_token_fault_text(c.bytes, rng, d);
            else if (f < 9 && c.is_xml())
                c.bytes = apply_struct_fault(c.bytes, rng.below(SF_COUNT), rng, d);  // dangling refs, duplicate ids, ...
            else
                c.bytes = apply_byte_fault(c.bytes, rng.below(BF_COUNT), rng, d);  // not even well-formed XML
            what += " + " + d;
        }
    } else {
        static const std::vector<std::string> q{"A[] not deadlock", "E<> true", "A[] true /* never closed", "E<> 1 +", "Pr[<=10](<> true)"};
        c.bytes = rng.pick(q);
        c.entry = E_PROP_STR;
        c.backend = B_TIGA;
        what = "query";
    }
    if (c.entry <= E_XTA_FILE)
        c.backend = rng.chance(0.8) ? B_DOC : B_BUILDER;
    c.sched = ctx.draw_sched(rng, false);
    c.ceiling = default_ceiling(c.bytes.size());
    // the other client's parse may be abandoned by an exception that is not a TypeException, deep inside the grammar
    if (rng.chance(0.08))
        c.alloc_fail_at = 1 + (int64_t)rng.below(1u << rng.range(3, 12));
    return c;
}

}  // namespace sim
