// Profile blast (C06b, C16): one accepted generated model, one content fault in one text block;
// within the sampled blocks every token position is faulted with every applicable fault kind
// (fault enumeration); models, serialisations, clock offsets and surrounding history are sampled.
#include "prof_common.h"

#include <cstring>
#include <map>
#include <set>
#include <sstream>

namespace sim {

namespace {

struct Site
{
    size_t block;
    size_t tok;
    int fault;
};

std::string block_sig(const BlockRef& b) { return b.kind_name(); }

}  // namespace

void profile_blast(RunCtx& ctx)
{
    Rng rng{ctx.run_seed};
    GenCfg cfg;
    Model m = small_or_drawn_model(ctx, rng, cfg);
    m.queries.clear();
    XmlKnobs kn = draw_knobs(rng);
    kn.pad_text = false;
    kn.crlf = false;
    kn.project_root = false;           // list_blocks() builds its XPaths under /nta
    kn.big_text_lines = 0;             // the fault positions are computed from the block texts of the model
    const Rng render_rng = rng.fork();
    // layouts in front of the fault site: leading blank lines, CRLF, comments, continuations
    static const std::vector<std::string> prefixes{"", "", "\n\n", "\r\n\r\n", "/* c */ ", "// c\n", " \\\n ", "\t", "/* a\n b */\n", "\n\r\n \n", "/**\n * a\n *\n */\n", "/***\n***/ "};
    auto blocks = list_blocks(m);
    std::vector<std::string> prefix_of(blocks.size());
    for (size_t b = 0; b < blocks.size(); ++b) {
        prefix_of[b] = rng.pick(prefixes);
        if (prefix_of[b].empty())
            continue;
        // declaration-like blocks keep their list structure (needed for "preceding declarations" below)
        switch (blocks[b].kind) {
        case BlockRef::GDECL: m.gdecls[0].text = prefix_of[b] + m.gdecls[0].text; break;
        case BlockRef::TDECL: m.templs[blocks[b].templ].decls[0].text = prefix_of[b] + m.templs[blocks[b].templ].decls[0].text; break;
        case BlockRef::PARAM: m.templs[blocks[b].templ].params[0].text = prefix_of[b] + m.templs[blocks[b].templ].params[0].text; break;
        default: set_block_text(m, blocks[b], prefix_of[b] + get_block_text(m, blocks[b])); break;
        }
    }
    // a dynamic template is kept apart from Document::get_templates(): index of a model template among those
    auto doc_templ = [&m](int model_index) {
        int d = model_index;
        for (int i = 0; i < model_index && i < (int)m.templs.size(); ++i)
            if (m.templs[i].dynamic)
                --d;
        return d;
    };
    const Model pristine = m;
    std::vector<std::string> texts(blocks.size());
    for (size_t b = 0; b < blocks.size(); ++b)
        texts[b] = get_block_text(m, blocks[b]);
    Rng r0 = render_rng;
    const std::string xml0 = render_xml(m, kn, r0);
    ctx.sample("blast model:\n" + xml0.substr(0, 1500));
    ctx.count("models");

    // a global plain channel for the channel-arithmetic fault
    const std::string chan = "ch0";

    // ---- plan: which sites ----
    std::vector<size_t> chosen;
    {
        std::vector<size_t> idx(blocks.size());
        for (size_t i = 0; i < idx.size(); ++i)
            idx[i] = i;
        for (size_t i = idx.size(); i > 1; --i)
            std::swap(idx[i - 1], idx[rng.below((uint32_t)i)]);
        size_t want = ctx.thorough ? idx.size() : std::min<size_t>(idx.size(), 3);
        chosen.assign(idx.begin(), idx.begin() + want);
    }
    std::vector<Site> sites;
    for (size_t b : chosen) {
        auto toks = tokenize(texts[b]);
        std::vector<Site> here;
        for (size_t t = 0; t < toks.size(); ++t)
            for (int f = 0; f < TF_COUNT; ++f)
                here.push_back(Site{b, t, f});
        size_t cap = ctx.thorough ? 600 : 120;
        if (here.size() > cap) {
            // keep every fault kind at evenly spread token positions
            std::vector<Site> cut;
            double stride = (double)here.size() / cap;
            for (size_t k = 0; k < cap; ++k)
                cut.push_back(here[(size_t)(k * stride)]);
            here.swap(cut);
            ctx.count("blocks-sampled-not-exhaustive");
        } else
            ctx.count("blocks-enumerated-exhaustively");
        sites.insert(sites.end(), here.begin(), here.end());
    }

    // ---- step 0/1: fault-free references ----
    int jump0 = rng.below(10);
    if (!(ctx.simplify & SIMP_NOJUMP)) {
        if (jump0 == 0)
            clock_jump(ctx, (1ull << 31) - rng.below(200000));
        else if (jump0 < 4)
            clock_jump(ctx, 1ull << rng.range(10, 30));
    }
    DumpOpts ref_opts;
    ref_opts.diagnostics = false;
    Session ref_doc, ref_builder;
    {
        CallSpec c;
        c.entry = E_XML_BUFFER;
        c.backend = B_DOC;
        c.bytes = xml0;
        c.ceiling = default_ceiling(xml0.size());
        ctx.hint = "blast:reference";
        CallResult r = ctx.call(ref_doc, c, 0);
        if (ctx.violations)
            return;
        if (r.threw || r.ret != 0 || ref_doc.doc->has_errors()) {
            ctx.count("models-not-accepted");
            if (ctx.explain && ref_doc.doc)
                ctx.explain_line("not accepted: " + dump_diagnostics(*ref_doc.doc, DumpOpts{}));
            return;
        }
        ctx.count("models-accepted");
        c.backend = B_BUILDER;
        r = ctx.call(ref_builder, c, 1);
        if (ctx.violations)
            return;
        if (r.threw || ref_builder.doc->has_errors()) {
            ctx.count("models-not-accepted");
            return;
        }
    }
    int step = 2;
    for (auto& site : sites) {
        const int st_doc = step++;
        const int st_builder = step++;
        const BlockRef& b = blocks[site.block];
        auto toks = tokenize(texts[site.block]);
        FaultResult fr = apply_token_fault(texts[site.block], toks, site.tok, site.fault, b.kind, chan);
        if (!fr.applied)
            continue;
        if (!ctx.keep(st_doc) && !ctx.keep(st_builder))
            continue;
        // noise before the call and a clock jump now and then
        if (rng.chance(0.03) && ctx.keep(st_doc)) {
            std::string what;
            CallSpec nc = noise_call(ctx, rng, what);
            Session other;
            ctx.hint = "noise:" + what;
            bool saved = ctx.c06_applicable;
            ctx.c06_applicable = false;
            ctx.call(other, nc, st_doc);
            ctx.c06_applicable = saved;
            if (ctx.violations)
                return;
        }
        if (!(ctx.simplify & SIMP_NOJUMP) && rng.chance(0.05))
            clock_jump(ctx, (uint64_t)clock_now() + rng.below(1u << 20));
        Model mf = pristine;
        set_block_text(mf, b, fr.text);
        Rng rr = render_rng;
        std::map<std::string, std::string> label_paths;
        const std::string xml = render_xml(mf, kn, rr, &label_paths);
        // where the faulted block really is in this rendering (the renderer may have put empty sibling labels in front)
        std::string bx = b.xpath;
        {
            static const char* xmlkind[] = {"", "", "", "invariant", "exponentialrate", "select", "guard", "synchronisation", "assignment", "probability", ""};
            auto it = label_paths.find(std::string{xmlkind[b.kind]} + ":" + std::to_string(b.templ) + ":" + std::to_string(b.index));
            if (it != label_paths.end())
                bx = it->second;
        }
        const std::string fname = token_fault_name(site.fault);
        const std::string where = std::string{b.kind_name()} + " " + bx + " token " + std::to_string(site.tok) + " fault " + fname;
        ctx.count("fault-sites");
        ctx.count("fault-kind:" + fname);
        ctx.count(std::string{"block-kind:"} + b.kind_name());
        if (fr.guaranteed_error)
            ctx.count("fault-sites-guaranteed-ill-formed");

        // ---------------- Document level: C06b ----------------
        if (ctx.keep(st_doc)) {
            CallSpec c;
            c.entry = rng.below(3);
            c.backend = B_DOC;
            c.bytes = xml;
            c.sched = ctx.draw_sched(rng, false);
            c.ceiling = default_ceiling(xml.size());
            Session s;
            ctx.hint = "blast:" + fname + ":" + b.kind_name();
            CallResult r = ctx.call(s, c, st_doc);
            if (ctx.violations)
                return;
            ctx.event("doc " + where + (r.threw ? " threw" : ""));
            if (r.threw) {
                if (ctx.violation("C06", "fault-not-reported-as-diagnostic", "c06b|threw|" + block_sig(b) + "|" + fname + "|" + r.exc_class,
                                  where + ": the load ended in " + r.exc_class + ": " + r.exc_what + " instead of a diagnostic"))
                    return;
            } else {
            auto diags = view_diagnostics(*s.doc);
            size_t nerr = 0, in_block = 0;
            bool exact = false;
            std::string stray;
            for (auto& d : diags) {
                if (!d.error)
                    continue;
                ++nerr;
                if (d.path == bx) {
                    ++in_block;
                    if (!d.unknown && d.sline == fr.line && d.scol == fr.scol && d.eline == fr.line && d.ecol == fr.ecol)
                        exact = true;
                } else if (stray.empty())
                    stray = d.msg + " at " + d.path;
            }
            ctx.count("c06b-loads");
            if (fr.guaranteed_error) {
                ctx.count("c06b-guaranteed-checked");
                if (in_block == 0) {
                    if (ctx.violation("C06", "no-error-in-faulted-block", "c06b|no-error-in-block|" + block_sig(b) + "|" + fname,
                                      where + ": " + std::to_string(nerr) + " errors, none attributed to the faulted block" +
                                          (stray.empty() ? "" : "; e.g. " + stray) + "; text: " + fr.text))
                        return;
                }
                if (site.fault == TF_UNDECLARED) {
                    ctx.count("c06b-exact-range-checked");
                    if (in_block && !exact) {
                        std::ostringstream os;
                        os << where << ": expected an error at line " << fr.line << " columns " << fr.scol << "-" << fr.ecol << " for '" << fr.ident
                           << "'; got:";
                        for (auto& d : diags)
                            if (d.error)
                                os << " [" << d.msg << " " << d.sline << ":" << d.scol << "-" << d.eline << ":" << d.ecol << "]";
                        os << " text: " << fr.text;
                        if (ctx.violation("C06", "range-not-exact", "c06b|range|" + block_sig(b) + "|prefix=" + json_escape(prefix_of[site.block]), os.str()))
                            return;
                    }
                }
            }
            // "every error is attributed to it" is claimed for the fault list of the property (ill-formed by
            // construction); a truncation or token deletion may instead yield a *well-formed* label with another meaning
            // (ch1! -> ch1 turns an I/O synchronisation into a CSP one), whose conflict with other labels is
            // rightly reported where the type checker meets it
            // A purely semantic fault (type error) leaves the builder without errors, so the type checker runs: what it
            // annotates and reports for every *other* label must be what it annotates and reports without the fault.
            if (!b.declaring() && (site.fault == TF_CHAN_ARITH || site.fault == TF_BAD_TERNARY || site.fault == TF_SIDE_EFFECT) &&
                ref_doc.doc) {
                DumpOpts o;
                o.diagnostics = false;
                o.mask_templ = doc_templ(b.templ);
                o.mask_elem = (b.kind == BlockRef::INV || b.kind == BlockRef::RATE) ? 'L' : 'E';
                o.mask_index = b.index;
                o.mask_field = b.field();
                o.mask_path = bx;
                o.typechecked_only = true;
                std::string want = dump_document(*ref_doc.doc, o);
                std::string got = dump_document(*s.doc, o);
                ctx.count("c16-comparisons");
                ctx.count("c16-typechecked-comparisons");
                if (want != got) {
                    std::string d = first_diff(want, got);
                    std::string kind = first_word(d.substr(d.find('[') + 1));
                    if (ctx.violation("C16", "fault-disturbs-rest", "c16|typechecked|" + block_sig(b) + "|" + fname + "|" + kind,
                                      where + ": after type checking, the document outside the faulted label differs from the fault-free one: " + d +
                                          "; text: " + fr.text))
                        return;
                }
                // diagnostics of other blocks must be those of the fault-free load
                std::multiset<std::string> base;
                for (auto& d : view_diagnostics(*ref_doc.doc))
                    if (d.path != bx)
                        base.insert(d.path + "|" + d.msg);
                std::multiset<std::string> mine;
                for (auto& d : view_diagnostics(*s.doc))
                    if (d.path != bx)
                        mine.insert(d.path + "|" + d.msg);
                if (mine != base) {
                    std::string what = "diagnostics of the other blocks differ:";
                    for (auto& x : base)
                        if (!mine.count(x))
                            what += " missing[" + x + "]";
                    for (auto& x : mine)
                        if (!base.count(x))
                            what += " extra[" + x + "]";
                    if (ctx.violation("C16", "diagnostic-in-other-block", "c16|typechecked-diags|" + block_sig(b) + "|" + fname, where + ": " + what + "; text: " + fr.text))
                        return;
                }
            }
            if (!b.declaring() && fr.guaranteed_error && nerr > in_block) {
                if (ctx.violation("C06", "error-attributed-elsewhere", "c06b|elsewhere|" + block_sig(b) + "|" + fname,
                                  where + ": error outside the faulted non-declaring label: " + stray + "; text: " + fr.text))
                    return;
            }
                    }
}
        // ---------------- the same fault in the XTA rendering: C06 for plain-text input ----------------
        // (empty path, line and columns counted in the whole file; the fresh identifier is unique in the text)
        if (ctx.keep(st_doc) && site.fault == TF_UNDECLARED && fr.guaranteed_error && rng.chance(0.3)) {
            const std::string xta = render_xta(mf);
            size_t at = xta.find(fr.ident);
            if (at != std::string::npos && xta.find(fr.ident, at + 1) == std::string::npos) {
                unsigned line = 1;
                size_t line_start = 0;
                for (size_t i = 0; i < at; ++i)
                    if (xta[i] == '\n') {
                        ++line;
                        line_start = i + 1;
                    }
                const unsigned scol = (unsigned)(at - line_start), ecol = scol + (unsigned)fr.ident.size();
                CallSpec c;
                c.entry = rng.chance(0.5) ? E_XTA_STR : E_XTA_FILE;
                c.backend = B_DOC;
                c.bytes = xta;
                c.sched = ctx.draw_sched(rng, false);
                c.ceiling = default_ceiling(xta.size());
                Session s;
                ctx.hint = "blast-xta:" + fname + ":" + b.kind_name();
                CallResult r = ctx.call(s, c, st_doc);
                if (ctx.violations)
                    return;
                ctx.event("xta " + where + (r.threw ? " threw" : ""));
                ctx.count("c06b-xta-loads");
                if (!r.threw) {
                    bool exact = false, any = false;
                    std::ostringstream got;
                    for (auto& d : view_diagnostics(*s.doc)) {
                        if (!d.error)
                            continue;
                        any = true;
                        got << " [" << d.msg << " path='" << d.path << "' " << d.sline << ":" << d.scol << "-" << d.eline << ":" << d.ecol << "]";
                        if (d.path.empty() && !d.unknown && d.sline == line && d.eline == line && d.scol == scol && d.ecol == ecol)
                            exact = true;
                    }
                    if (!exact) {
                        std::ostringstream os;
                        os << where << " (XTA rendering): expected an error with empty path at line " << line << " columns " << scol << "-" << ecol
                           << " for '" << fr.ident << "'; got" << (any ? got.str() : std::string{" no error"});
                        if (ctx.violation("C06", "range-not-exact", "c06b|xta-range|" + block_sig(b), os.str()))
                            return;
                    }
                } else if (ctx.violation("C06", "fault-not-reported-as-diagnostic", "c06b|xta-threw|" + block_sig(b) + "|" + r.exc_class,
                                         where + " (XTA rendering): the load ended in " + r.exc_class + ": " + r.exc_what))
                    return;
            }
        }
        // ---------------- builder level: C16 ----------------
        if (ctx.keep(st_builder) && (!b.declaring() || b.kind == BlockRef::GDECL || b.kind == BlockRef::TDECL)) {
            CallSpec c;
            c.entry = E_XML_BUFFER;
            c.backend = B_BUILDER;
            c.bytes = xml;
            c.ceiling = default_ceiling(xml.size());
            Session s;
            ctx.hint = "blast:" + fname + ":" + b.kind_name();
            CallResult r = ctx.call(s, c, st_builder);
            if (ctx.violations)
                return;
            ctx.event("builder " + where);
            if (r.threw) {
                ctx.count("c16-load-threw");
                // one faulted label and the whole load is abandoned: every other block is lost with it
                if (ctx.violation("C16", "fault-aborts-load", "c16|load-threw|" + block_sig(b) + "|" + fname + "|" + r.exc_class,
                                  where + ": the load ended in " + r.exc_class + ": " + r.exc_what + "; text: " + fr.text))
                    return;
                continue;
            }
            DumpOpts o;
            o.diagnostics = false;
            if (!b.declaring()) {
                o.mask_templ = doc_templ(b.templ);
                o.mask_elem = (b.kind == BlockRef::INV || b.kind == BlockRef::RATE) ? 'L' : 'E';
                o.mask_index = b.index;
                o.mask_field = b.field();
                o.mask_path = bx;
                std::string want = dump_document(*ref_builder.doc, o);
                std::string got = dump_document(*s.doc, o);
                ctx.count("c16-label-comparisons");
                ctx.count("c16-comparisons");
                if (want != got) {
                    std::string d = first_diff(want, got);
                    std::string kind = first_word(d.substr(d.find('[') + 1));
                    if (ctx.violation("C16", "fault-disturbs-rest", "c16|label|" + block_sig(b) + "|" + fname + "|" + kind,
                                      where + ": outside the faulted label the document differs from the fault-free one: " + d + "; text: " + fr.text))
                        return;
                }
                // diagnostics of other blocks: only those the fault-free load does not have as well are attributed to
                // the fault (an accepted model may carry warnings, e.g. "$shadows_a_variable" for the deliberately
                // reused binder names)
                {
                    std::multiset<std::string> base;
                    for (auto& d : view_diagnostics(*ref_builder.doc))
                        base.insert(d.path + "|" + d.msg);
                    for (auto& d : view_diagnostics(*s.doc)) {
                        if (d.path == bx)
                            continue;
                        auto it = base.find(d.path + "|" + d.msg);
                        if (it != base.end()) {
                            base.erase(it);
                            continue;
                        }
                        if (ctx.violation("C16", "diagnostic-in-other-block", "c16|diag-elsewhere|" + block_sig(b) + "|" + fname,
                                          where + ": diagnostic '" + d.msg + "' attributed to " + d.path + "; text: " + fr.text))
                            return;
                        break;
                    }
                }
            } else {
                // declarations that textually precede the faulted declaration are present and unchanged
                const auto& decls = b.kind == BlockRef::GDECL ? pristine.gdecls : pristine.templs[b.templ].decls;
                size_t off = 0, idx = 0;
                const size_t fault_off = toks[site.tok].off;
                for (; idx < decls.size(); ++idx) {
                    size_t end = off + decls[idx].text.size();  // the joining newline belongs to the next declaration's lead-in
                    if (fault_off < end)
                        break;
                    off = end + 1;
                }
                if (idx >= decls.size())
                    idx = decls.size() - 1;
                o.mask_decl_templ = b.kind == BlockRef::GDECL ? -1 : doc_templ(b.templ);
                // (the declaration of a dynamic template adds an instance symbol, which the prefix dump leaves out)
                auto counts = [](const std::vector<MDecl>& ds, size_t n, int& syms, int& vars, int& funs) {
                    for (size_t k = 0; k < n && k < ds.size(); ++k) {
                        if (!(ds[k].kind == MDecl::OTHER && ds[k].text.rfind("dynamic ", 0) == 0))
                            ++syms;
                        if (ds[k].kind == MDecl::VAR)
                            ++vars;
                        else if (ds[k].kind == MDecl::FUN)
                            ++funs;
                    }
                };
                o.keep_syms = b.kind == BlockRef::TDECL ? (int)pristine.templs[b.templ].params.size() : 0;
                o.keep_vars = o.keep_funs = 0;
                counts(decls, idx, o.keep_syms, o.keep_vars, o.keep_funs);
                if (b.kind == BlockRef::TDECL && !pristine.sys_decls.empty()) {
                    // the variables of the <system> block join the globals but follow the faulted block in the text
                    o.gkeep_syms = o.gkeep_vars = o.gkeep_funs = 0;
                    counts(pristine.gdecls, pristine.gdecls.size(), o.gkeep_syms, o.gkeep_vars, o.gkeep_funs);
                }
                std::string want = dump_document(*ref_builder.doc, o);
                std::string got = dump_document(*s.doc, o);
                ctx.count("c16-declaration-prefix-comparisons");
                ctx.count("c16-comparisons");
                ctx.count("c16-declarations-preceding", idx);
                if (want != got) {
                    std::string d = first_diff(want, got);
                    std::string kind = first_word(d.substr(d.find('[') + 1));
                    if (ctx.violation("C16", "fault-disturbs-preceding-declarations", "c16|decl-prefix|" + block_sig(b) + "|" + fname + "|" + kind,
                                      where + " (inside declaration #" + std::to_string(idx) + "): a preceding declaration is missing or changed: " + d))
                        return;
                }
            }
        }
    }
    // ---------------- element-level faults: C06 for diagnostics raised on an element, not on a text ----------------
    // The reader attributes what the builder reports while it handles an element (a location, a template, its init, an
    // empty system) to that element through a one-character dummy position. One model-level fault with a known
    // culprit element is injected at a time; an error with the expected message must carry that element's path.
    {
        struct EF
        {
            int fault;
            const char* msg;
        };
        static const EF efs[] = {{MF_DUP_LOC_NAME, "$Duplicate_definition_of"}, {MF_DUP_TEMPLATE_NAME, "$Duplicate_definition_of"},
                                 {MF_INIT_IS_BRANCHPOINT, "$Location_expected"}, {MF_EMPTY_TEMPLATE, "$Missing_initial_location"},
                                 {MF_BAD_NAME, ""},  // "Invalid identifier" / "Identifier expected" / keyword, reported on the <name> element
                                 {-1 /* blank system text */, "$syntax_error: $unexpected $end"}};
        for (auto& ef : efs) {
            const int st = step++;
            if (!ctx.keep(st))
                continue;
            Model mf = pristine;
            Rng fr2 = rng.fork();
            bool has_dyn = false;
            for (auto& t : mf.templs)
                has_dyn |= t.dynamic;
            if (ef.fault == MF_DUP_TEMPLATE_NAME && has_dyn)
                continue;  // a second body for a dynamic template is "Inconsistent parameters", not a duplicate definition
            if (ef.fault == -1)
                mf.system_raw = rng.chance(0.5) ? " \n  " : "// nothing here\n";
            else if (!apply_model_fault(mf, ef.fault, fr2))
                continue;
            // the culprit element
            std::string expect;
            if (ef.fault == -1)
                expect = "/nta/system";
            for (size_t ti = 0; ti < mf.templs.size() && expect.empty(); ++ti) {
                const MTempl& t = mf.templs[ti];
                const MTempl& t0 = pristine.templs[ti];
                const std::string tp = "/nta/template[" + std::to_string(ti + 1) + "]";
                if (ef.fault == MF_DUP_LOC_NAME) {
                    for (size_t j = 0; j < t.locs.size(); ++j)
                        for (size_t i2 = 0; i2 < j; ++i2)
                            if (t.locs[j].docname() == t.locs[i2].docname())
                                expect = tp + "/location[" + std::to_string(j + 1) + "]";
                } else if (ef.fault == MF_DUP_TEMPLATE_NAME) {
                    if (t.name != t0.name)
                        expect = tp;
                } else if (ef.fault == MF_INIT_IS_BRANCHPOINT) {
                    if (!t.init_override.empty())
                        expect = tp;
                } else if (ef.fault == MF_EMPTY_TEMPLATE) {
                    if (t.locs.empty() && !t0.locs.empty())
                        expect = tp;
                } else if (ef.fault == MF_BAD_NAME) {
                    if (t.name != t0.name)
                        expect = tp + "/name";
                    for (size_t j = 0; j < t.locs.size() && j < t0.locs.size() && expect.empty(); ++j)
                        if (t.locs[j].name != t0.locs[j].name)
                            expect = tp + "/location[" + std::to_string(j + 1) + "]/name";
                }
            }
            if (expect.empty())
                continue;
            Rng rr = render_rng;
            CallSpec c;
            c.entry = rng.below(3);
            c.backend = B_DOC;
            c.bytes = render_xml(mf, kn, rr);
            c.sched = ctx.draw_sched(rng, false);
            c.ceiling = default_ceiling(c.bytes.size());
            Session s;
            ctx.hint = std::string{"blast-element:"} + (ef.fault == -1 ? "blank-system" : model_fault_name(ef.fault));
            CallResult r = ctx.call(s, c, st);
            if (ctx.violations)
                return;
            ctx.event(std::string{"element "} + (ef.fault == -1 ? "blank-system" : model_fault_name(ef.fault)) + (r.threw ? " threw" : ""));
            ctx.count("c06c-element-faults");
            if (r.threw || !s.doc)
                continue;
            bool found = false, right = false;
            std::string where_found;
            for (auto& d : view_diagnostics(*s.doc)) {
                if (!d.error || d.msg.compare(0, strlen(ef.msg), ef.msg) != 0)
                    continue;
                if (ef.fault == MF_BAD_NAME && d.msg != "Invalid identifier" && d.msg != "Identifier expected" && d.msg != "$Keywords_are_not_allowed_here")
                    continue;
                found = true;
                if (d.path == expect)
                    right = true;
                else if (where_found.empty())
                    where_found = d.path;
            }
            if (found)
                ctx.count("c06c-element-faults-with-the-expected-error");
            if (found && !right) {
                const std::string fn = ef.fault == -1 ? "blank-system" : model_fault_name(ef.fault);
                if (ctx.violation("C06", "error-attributed-elsewhere", std::string{"c06c|element|"} + fn,
                                  std::string{"model fault "} + fn + ": the error '" + ef.msg + "' caused by " + expect +
                                      " is attributed to " + where_found))
                    return;
            }
        }
    }
    ref_doc.drop();
    ref_builder.drop();
}

}  // namespace sim
