#include "xmlview.h"

#include <libxml/parser.h>
#include <libxml/tree.h>

#include <cstring>

namespace sim {

namespace {
std::string attr(xmlNodePtr n, const char* name)
{
    xmlChar* v = xmlGetProp(n, (const xmlChar*)name);
    std::string r = v ? (const char*)v : "";
    if (v)
        xmlFree(v);
    return r;
}
bool has_attr(xmlNodePtr n, const char* name) { return xmlHasProp(n, (const xmlChar*)name) != nullptr; }
std::string content(xmlNodePtr n)
{
    xmlChar* v = xmlNodeGetContent(n);
    std::string r = v ? (const char*)v : "";
    if (v)
        xmlFree(v);
    return r;
}
bool is(xmlNodePtr n, const char* name) { return n->type == XML_ELEMENT_NODE && std::strcmp((const char*)n->name, name) == 0; }
}  // namespace

bool parse_written(const std::string& xml, WDoc& out, std::string& err)
{
    xmlDocPtr d = xmlReadMemory(xml.data(), (int)xml.size(), "written.xml", nullptr,
                                XML_PARSE_NONET | XML_PARSE_NOERROR | XML_PARSE_NOWARNING);
    if (!d) {
        auto* e = xmlGetLastError();
        err = e && e->message ? e->message : "not well-formed";
        return false;
    }
    xmlNodePtr root = xmlDocGetRootElement(d);
    if (!root) {
        xmlFreeDoc(d);
        err = "no root element";
        return false;
    }
    for (xmlNodePtr c = root->children; c; c = c->next) {
        if (is(c, "declaration"))
            out.declaration = content(c);
        else if (is(c, "system"))
            out.system = content(c);
        else if (is(c, "template")) {
            WTempl t;
            for (xmlNodePtr e = c->children; e; e = e->next) {
                if (is(e, "name"))
                    t.name = content(e);
                else if (is(e, "parameter"))
                    t.parameter = content(e);
                else if (is(e, "declaration"))
                    t.declaration = content(e);
                else if (is(e, "location")) {
                    WLoc l;
                    l.id = attr(e, "id");
                    for (xmlNodePtr x = e->children; x; x = x->next) {
                        if (is(x, "name"))
                            l.name = content(x);
                        else if (is(x, "label"))
                            l.labels.push_back(WLabel{attr(x, "kind"), content(x)});
                        else if (is(x, "urgent"))
                            l.urgent = true;
                        else if (is(x, "committed"))
                            l.committed = true;
                    }
                    t.locs.push_back(l);
                } else if (is(e, "branchpoint"))
                    t.branchpoints.push_back(attr(e, "id"));
                else if (is(e, "init"))
                    t.inits.push_back(attr(e, "ref"));
                else if (is(e, "transition")) {
                    WTrans tr;
                    tr.controllable = has_attr(e, "controllable") ? attr(e, "controllable") : "";
                    for (xmlNodePtr x = e->children; x; x = x->next) {
                        if (is(x, "source"))
                            tr.source = attr(x, "ref");
                        else if (is(x, "target"))
                            tr.target = attr(x, "ref");
                        else if (is(x, "label"))
                            tr.labels.push_back(WLabel{attr(x, "kind"), content(x)});
                    }
                    t.trans.push_back(tr);
                }
            }
            out.templs.push_back(t);
        }
    }
    xmlFreeDoc(d);
    return true;
}

std::set<int> text_tags(const std::string& s)
{
    std::set<int> t;
    size_t i = 0;
    while (i < s.size()) {
        if (std::isdigit((unsigned char)s[i]) && (i == 0 || !(std::isalnum((unsigned char)s[i - 1]) || s[i - 1] == '_' || s[i - 1] == '.'))) {
            size_t j = i;
            long v = 0;
            while (j < s.size() && std::isdigit((unsigned char)s[j]) && j - i < 10) {
                v = v * 10 + (s[j] - '0');
                ++j;
            }
            if (j < s.size() && (std::isdigit((unsigned char)s[j]) || s[j] == '.'))
                v = 0;
            if (v >= 100000)
                t.insert((int)v);
            while (j < s.size() && (std::isdigit((unsigned char)s[j]) || s[j] == '.'))
                ++j;
            i = j;
        } else
            ++i;
    }
    return t;
}

}  // namespace sim
