// Renderers of the abstract model: UPPAAL XML (with serialisation knobs) and XTA; the expected
// structural summary; block addressing.
#include "gen.h"

#include <cstring>
#include <algorithm>
#include <functional>
#include <sstream>

namespace sim {

XmlKnobs draw_knobs(Rng& rng)
{
    XmlKnobs k;
    k.xml_decl = rng.chance(0.7);
    k.doctype = rng.chance(0.6);
    k.indent = rng.below(3);
    k.single_quotes = rng.chance(0.3);
    k.coords = rng.chance(0.6);
    k.attr_shuffle = rng.chance(0.4);
    k.text_escape = rng.below(4);  // 4 (adjacent CDATA sections) belongs to the separately reported split-text family
    k.comments_between = rng.chance(0.3);
    k.empty_elems = rng.chance(0.3);
    k.pad_text = rng.chance(0.3);
    k.crlf = rng.chance(0.15);
    // the labels of a location may come in either order (since the fix of F-C04-3 an ordinary serialisation choice)
    k.rate_before_invariant = rng.chance(0.25);
    if (rng.chance(0.06))
        k.big_text_lines = rng.range(100, 900);
    if (rng.chance(0.06))
        k.imports_elem = rng.range(1, 2);
    // the reader accepts <project> as the root element as well as <nta>
    k.project_root = rng.chance(0.05);
    if (k.project_root)
        k.doctype = false;
    return k;
}

std::string knobs_str(const XmlKnobs& k)
{
    std::ostringstream os;
    os << "decl=" << k.xml_decl << " doctype=" << k.doctype << " indent=" << k.indent << " sq=" << k.single_quotes
       << " coords=" << k.coords << " shuffle=" << k.attr_shuffle << " esc=" << k.text_escape
       << " comments=" << k.comments_between << " empty=" << k.empty_elems << " pad=" << k.pad_text << " crlf=" << k.crlf
       << " instantiation=" << k.split_instantiation << " imports=" << k.imports_elem << " project=" << k.project_root << " big=" << k.big_text_lines << " rate_first=" << k.rate_before_invariant << " comment_in_text=" << k.comment_in_text;
    return os.str();
}

std::string xml_escape(const std::string& s, int mode)
{
    if ((mode == 3 || mode == 4) && s.find("]]>") == std::string::npos && !s.empty()) {
        if (mode == 3 || s.size() < 4)
            return "<![CDATA[" + s + "]]>";
        size_t cut = s.size() / 2;
        return "<![CDATA[" + s.substr(0, cut) + "]]><![CDATA[" + s.substr(cut) + "]]>";
    }
    std::string r;
    for (char c : s) {
        switch (c) {
        case '&': r += mode == 2 ? "&#38;" : "&amp;"; break;
        case '<': r += mode == 2 ? "&#60;" : "&lt;"; break;
        case '>': r += mode == 0 ? ">" : (mode == 2 ? "&#x3E;" : "&gt;"); break;
        case '"': r += mode == 1 ? "&quot;" : (mode == 2 ? "&#34;" : "\""); break;
        case '\'': r += mode == 1 ? "&apos;" : "'"; break;
        case '\r': r += "&#13;"; break;  // a literal CR would be normalised away by any XML parser
        default: r += c;
        }
    }
    return r;
}

namespace {

struct X
{
    const XmlKnobs& k;
    Rng& rng;
    std::ostringstream os;
    int level{0};
    // bookkeeping for label_paths
    std::map<std::string, std::string>* paths{nullptr};
    std::string parent_path;  // of the location / transition being written
    std::string parent_key;   // ":<template>:<index>"
    int label_count{0};
    X(const XmlKnobs& k, Rng& r): k{k}, rng{r} {}

    void nl()
    {
        if (k.indent == 0)
            return;
        os << "\n";
        if (k.indent == 1)
            for (int i = 0; i < level; ++i)
                os << "\t";
        else {
            int n = rng.below(5);
            for (int i = 0; i < n; ++i)
                os << (rng.chance(0.2) ? "\n" : " ");
        }
        if (k.comments_between && rng.chance(0.15)) {
            os << (rng.chance(0.7) ? "<!-- generated <label kind=\"guard\">x</label> -->" : "<?sim pi data?>");
            if (k.indent)
                os << "\n";
        }
    }
    std::string q(const std::string& v)
    {
        std::string e;
        for (char c : v) {
            if (c == '&')
                e += "&amp;";
            else if (c == '<')
                e += "&lt;";
            else if (c == '"' && !k.single_quotes)
                e += "&quot;";
            else if (c == '\'' && k.single_quotes)
                e += "&apos;";
            else
                e += c;
        }
        return k.single_quotes ? "'" + e + "'" : "\"" + e + "\"";
    }
    /** attrs: vector of name,value; coords appended when knob on */
    void open(const std::string& tag, std::vector<std::pair<std::string, std::string>> attrs, bool coords, bool selfclose)
    {
        if (coords && k.coords) {
            attrs.emplace_back("x", std::to_string(rng.range(-300, 300)));
            attrs.emplace_back("y", std::to_string(rng.range(-300, 300)));
            if (rng.chance(0.1))
                attrs.emplace_back("color", "#ff0000");
        }
        if (k.attr_shuffle)
            for (size_t i = attrs.size(); i > 1; --i)
                std::swap(attrs[i - 1], attrs[rng.below((uint32_t)i)]);
        os << "<" << tag;
        for (auto& a : attrs)
            os << " " << a.first << "=" << q(a.second);
        os << (selfclose ? "/>" : ">");
    }
    std::string text(std::string t)
    {
        if (k.crlf) {
            std::string r;
            for (size_t i = 0; i < t.size(); ++i) {
                char c = t[i];
                // a line continuation must stay "\\ LF": the lexer knows no "\\ CR LF"
                size_t j = i;
                while (j > 0 && (t[j - 1] == ' ' || t[j - 1] == '\t'))
                    --j;
                bool continuation = c == '\n' && j > 0 && t[j - 1] == '\\';
                if (c == '\n' && !continuation)
                    r += "\r\n";
                else
                    r += c;
            }
            t = r;
        }
        if (k.pad_text) {
            static const std::vector<std::string> pads{"", " ", "\n", "\n\n", "  \n ", "\t"};
            t = rng.pick(pads) + t + rng.pick(pads);
        }
        std::string e = xml_escape(t, k.comment_in_text && rng.chance(0.3) ? 4 : k.text_escape);
        if (k.comment_in_text && e.compare(0, 9, "<![CDATA[") != 0 && rng.chance(0.6)) {
            // separately reported family: an XML comment / PI in front of or inside the text
            size_t cut = e.find(' ');
            std::string c = rng.chance(0.5) ? "<!-- c -->" : "<?pi x?>";
            if (cut == std::string::npos || rng.chance(0.5) || k.text_escape >= 3)
                e = c + e;
            else
                e = e.substr(0, cut) + c + e.substr(cut);
        }
        return e;
    }
    void label(const char* kind, const Label& l)
    {
        if (!l.present()) {
            // an absent label may also be written as an empty element (editors that keep the coordinates do that)
            if (k.empty_elems && rng.chance(0.25)) {
                ++label_count;
                nl();
                if (rng.chance(0.5))
                    open("label", {{"kind", kind}}, true, true);
                else {
                    open("label", {{"kind", kind}}, true, false);
                    os << "</label>";
                }
            }
            return;
        }
        if (k.comments_between && rng.chance(0.08)) {
            // an element the reader does not know (a tool's extension) between two known siblings: skipped by the reader
            nl();
            os << (rng.chance(0.5) ? "<extension tool=\"x\"/>" : "<extension><note>n</note></extension>");
        }
        ++label_count;
        if (paths)
            (*paths)[std::string{kind} + parent_key] = parent_path + "/label[" + std::to_string(label_count) + "]";
        nl();
        open("label", {{"kind", kind}}, true, false);
        os << text(l.text) << "</label>";
    }
    void block(const char* tag, const std::string& t, bool always)
    {
        if (t.empty()) {
            if (always || k.empty_elems) {
                nl();
                if (k.empty_elems && rng.chance(0.5))
                    os << "<" << tag << "/>";
                else
                    os << "<" << tag << "></" << tag << ">";
            }
            return;
        }
        nl();
        os << "<" << tag << ">" << text(t) << "</" << tag << ">";
    }
};

std::string join_decls(const std::vector<MDecl>& ds)
{
    std::string s;
    for (auto& d : ds) {
        if (!s.empty())
            s += "\n";
        s += d.text;
    }
    return s;
}
std::string join_params(const std::vector<MParam>& ps, const char* sep = ", ")
{
    std::string s;
    for (auto& p : ps) {
        if (p.text.empty())
            continue;  // written as part of the previous parameter's group ("const a, b")
        if (!s.empty())
            s += sep;
        s += p.text;
    }
    return s;
}

std::string system_text(const Model& m, int part = 0)  // 0 all, 1 instantiations only, 2 the rest
{
    if (!m.system_raw.empty())
        return m.system_raw;
    std::ostringstream os;
    if (part != 1)
        for (auto& d : m.sys_decls)
            os << d.text << "\n";
    for (auto& i : m.insts) {
        if (part == 2)
            break;
        os << i.name;
        if (!i.free_params.empty())
            os << "(" << join_params(i.free_params) << ")";
        os << " = " << (i.base.empty() ? i.templ : i.base) << "(";
        for (size_t a = 0; a < i.args.size(); ++a)
            os << (a ? ", " : "") << i.args[a].text;
        os << ");\n";
    }
    if (part == 1)
        return os.str();
    if (!m.chan_priority.empty())
        os << m.chan_priority << "\n";
    os << "system ";
    for (size_t i = 0; i < m.system.size(); ++i) {
        if (i)
            os << (m.prio_lt[i - 1] ? " < " : ", ");
        os << m.system[i];
    }
    os << ";";
    return os.str();
}

}  // namespace

std::string render_xml(const Model& m, const XmlKnobs& k, Rng& rng, std::map<std::string, std::string>* label_paths)
{
    X x{k, rng};
    x.paths = label_paths;
    const std::string root = k.project_root ? "/project" : "/nta";
    int templ_index = 0;
    if (k.xml_decl)
        x.os << "<?xml version=\"1.0\" encoding=\"utf-8\"?>";
    if (k.doctype) {
        if (k.indent || k.xml_decl)
            x.os << "\n";
        x.os << "<!DOCTYPE nta PUBLIC '-//Uppaal Team//DTD Flat System 1.1//EN' "
                "'http://www.it.uu.se/research/group/darts/uppaal/flat-1_2.dtd'>";
    }
    if (k.indent)
        x.os << "\n";
    x.os << (k.project_root ? "<project>" : "<nta>");
    x.level = 1;
    if (k.imports_elem) {
        x.nl();
        x.os << (k.imports_elem == 1 ? "<imports>import \"zlib.xml\";</imports>" : "<imports/>");
    }
    {
        std::string g = join_decls(m.gdecls);
        if (k.big_text_lines > 0) {
            std::string c = "/*\n";
            for (int i = 0; i < k.big_text_lines; ++i)
                c += " * line " + std::to_string(i) + " of a long header comment with <, > and & in it\n";
            g = c + " */\n" + g;
        }
        x.block("declaration", g, true);
    }
    for (auto& t : m.templs) {
        const int ti = templ_index++;
        int loc_index = 0, edge_index = 0;
        x.nl();
        x.os << "<template>";
        x.level = 2;
        x.nl();
        x.open("name", {}, true, false);
        x.os << t.name << "</name>";
        x.block("parameter", join_params(t.params, m.old_syntax ? "; " : ", "), false);
        x.block("declaration", join_decls(t.decls), false);
        for (auto& l : t.locs) {
            x.nl();
            x.open("location", {{"id", l.id}}, true, false);
            x.level = 3;
            x.parent_path = root + "/template[" + std::to_string(ti + 1) + "]/location[" + std::to_string(loc_index + 1) + "]";
            x.parent_key = ":" + std::to_string(ti) + ":" + std::to_string(loc_index);
            x.label_count = 0;
            ++loc_index;
            if (!l.name.empty()) {
                x.nl();
                x.open("name", {}, true, false);
                // re-indented files put the name on its own line
                if (k.pad_text && x.rng.chance(0.5))
                    x.os << (x.rng.chance(0.5) ? "\n\t\t\t" : "  ") << l.name << (x.rng.chance(0.5) ? "\n\t\t" : " \t") << "</name>";
                else
                    x.os << l.name << "</name>";
            } else if (k.empty_elems && x.rng.chance(0.4)) {
                x.nl();
                const bool selfclose = x.rng.chance(0.5);  // <name x=".." y=".."/> or <name ..></name>
                x.open("name", {}, true, selfclose);
                if (!selfclose)
                    x.os << "</name>";
            }
            if (k.rate_before_invariant) {
                x.label("exponentialrate", l.rate);
                x.label("invariant", l.inv);
            } else {
                x.label("invariant", l.inv);
                x.label("exponentialrate", l.rate);
            }
            if (l.urgent) {
                x.nl();
                x.os << "<urgent/>";
            }
            if (l.committed) {
                x.nl();
                x.os << "<committed/>";
            }
            x.level = 2;
            x.nl();
            x.os << "</location>";
        }
        for (auto& b : t.bps) {
            x.nl();
            if (rng.chance(0.5))
                x.open("branchpoint", {{"id", b.id}}, true, true);
            else {
                x.open("branchpoint", {{"id", b.id}}, true, false);
                x.os << "</branchpoint>";
            }
        }
        x.nl();
        if ((!t.locs.empty() || !t.init_override.empty()) && !t.omit_init)
            x.open("init", {{"ref", t.init_override.empty() ? t.locs[t.init].id : t.init_override}}, false, true);
        for (auto& e : t.edges) {
            x.nl();
            std::vector<std::pair<std::string, std::string>> at;
            if (!e.control)
                at.emplace_back("controllable", "false");
            else if (rng.chance(0.3))
                at.emplace_back("controllable", "true");
            if (k.coords && rng.chance(0.2))
                at.emplace_back("color", "#00ff00");
            x.open("transition", at, false, false);
            x.level = 3;
            x.parent_path = root + "/template[" + std::to_string(ti + 1) + "]/transition[" + std::to_string(edge_index + 1) + "]";
            x.parent_key = ":" + std::to_string(ti) + ":" + std::to_string(edge_index);
            x.label_count = 0;
            ++edge_index;
            x.nl();
            x.open("source", {{"ref", e.srcb ? t.bps[e.src].id : t.locs[e.src].id}}, false, true);
            x.nl();
            x.open("target", {{"ref", !e.dst_id_override.empty() ? e.dst_id_override : (e.dstb ? t.bps[e.dst].id : t.locs[e.dst].id)}}, false, true);
            x.label("select", e.select);
            x.label("guard", e.guard);
            x.label("synchronisation", e.sync);
            x.label("assignment", e.assign);
            x.label("probability", e.prob);
            if (k.coords) {
                int n = rng.below(3);
                for (int i = 0; i < n; ++i) {
                    x.nl();
                    x.open("nail", {}, true, true);
                }
            }
            x.level = 2;
            x.nl();
            x.os << "</transition>";
        }
        x.level = 1;
        x.nl();
        x.os << "</template>";
    }
    // (variables declared in the system block may be used as arguments: then everything stays in <system>)
    const bool split = k.split_instantiation && m.system_raw.empty() && !m.insts.empty() && m.sys_decls.empty() && !m.omit_system;
    if (split)
        x.block("instantiation", system_text(m, 1), true);
    if (!m.omit_system)
        x.block("system", split ? system_text(m, 2) : system_text(m), true);
    if (!m.queries.empty()) {
        x.nl();
        x.os << "<queries>";
        x.level = 2;
        for (auto& q : m.queries) {
            if (k.empty_elems && rng.chance(0.2)) {
                x.nl();
                x.os << "<query/>";  // an empty query element is legal (and ignored)
            }
            x.nl();
            x.os << "<query>";
            x.level = 3;
            x.nl();
            x.os << "<formula>" << xml_escape(q.formula, k.text_escape == 2 ? 2 : 0) << "</formula>";
            x.nl();
            if (q.comment.empty())
                x.os << "<comment/>";
            else
                x.os << "<comment>" << xml_escape(q.comment, 0) << "</comment>";
            for (auto& op : q.options) {
                x.nl();
                x.open("option", {{"key", op.first}, {"value", op.second}}, false, true);
            }
            if (q.has_expect) {
                x.nl();
                if (q.has_resource) {
                    x.open("expect", {{"outcome", q.outcome}, {"type", q.type}, {"value", q.value}}, false, false);
                    x.open("resource", {{"type", "time"}, {"value", "1"}, {"unit", "s"}}, false, true);
                    x.open("resource", {{"type", "memory"}, {"value", "10"}, {"unit", "KiB"}}, false, true);
                    x.os << "</expect>";
                } else if (rng.chance(0.5))
                    x.open("expect", {{"outcome", q.outcome}, {"type", q.type}, {"value", q.value}}, false, true);
                else {
                    x.open("expect", {{"outcome", q.outcome}, {"type", q.type}, {"value", q.value}}, false, false);
                    x.os << "</expect>";
                }
            }
            x.level = 2;
            x.nl();
            x.os << "</query>";
        }
        x.level = 1;
        x.nl();
        x.os << "</queries>";
    }
    x.level = 0;
    x.nl();
    x.os << (k.project_root ? "</project>" : "</nta>");
    if (k.indent)
        x.os << "\n";
    return x.os.str();
}

std::string render_xta(const Model& m)
{
    std::ostringstream os;
    os << join_decls(m.gdecls) << "\n";
    for (auto& t : m.templs) {
        os << "process " << t.name << "(" << join_params(t.params, m.old_syntax ? "; " : ", ") << ") {\n";
        if (t.locs.empty()) {  // model fault empty-template
            os << "}\n";
            continue;
        }
        os << join_decls(t.decls) << "\n";
        os << "state ";
        for (size_t i = 0; i < t.locs.size(); ++i) {
            auto& l = t.locs[i];
            os << (i ? ",\n  " : "") << l.docname();
            if (l.inv.present() && l.rate.present())
                os << " {" << l.inv.text << " ; " << l.rate.text << "}";
            else if (l.inv.present())
                os << " {" << l.inv.text << "}";
            else if (l.rate.present())
                os << " { ; " << l.rate.text << "}";
        }
        os << ";\n";
        if (!t.bps.empty()) {
            os << "branchpoint ";
            for (size_t i = 0; i < t.bps.size(); ++i)
                os << (i ? ", " : "") << t.bps[i].docname();
            os << ";\n";
        }
        // both forms of the flag sections: one statement per location (even template index) or one list (odd)
        const bool as_list = (&t - &m.templs[0]) % 2 == 1;
        for (const char* flag : {"commit", "urgent"}) {
            bool first = true;
            for (auto& l : t.locs) {
                if (!(flag[0] == 'c' ? l.committed : l.urgent))
                    continue;
                if (!as_list)
                    os << flag << " " << l.docname() << ";\n";
                else {
                    os << (first ? std::string{flag} + " " : std::string{", "}) << l.docname();
                    first = false;
                }
            }
            if (as_list && !first)
                os << ";\n";
        }
        os << "init " << (t.init_override.empty() ? t.locs[t.init].docname() : "_" + t.init_override) << ";\n";
        if (!t.edges.empty()) {
            os << "trans\n";
            for (size_t i = 0; i < t.edges.size(); ++i) {
                auto& e = t.edges[i];
                auto nm = [&](int idx, bool b) { return b ? t.bps[idx].docname() : t.locs[idx].docname(); };
                bool chain = i > 0 && t.edges[i - 1].src == e.src && t.edges[i - 1].srcb == e.srcb && !e.prob.present() &&
                             (i % 2 == 1);
                if (i)
                    os << ",\n";
                os << "  ";
                if (!chain)
                    os << nm(e.src, e.srcb) << " ";
                os << (e.control ? "->" : "-u->") << " " << nm(e.dst, e.dstb) << " { ";
                if (e.select.present())
                    os << "select " << e.select.text << "; ";
                if (e.guard.present())
                    os << "guard " << e.guard.text << "; ";
                if (e.sync.present())
                    os << "sync " << e.sync.text << "; ";
                if (e.assign.present())
                    os << "assign " << e.assign.text << "; ";
                if (e.prob.present())
                    os << "probability " << e.prob.text << "; ";
                os << "}";
            }
            os << ";\n";
        }
        os << "}\n";
    }
    if (!m.omit_system)
        os << system_text(m) << "\n";
    return os.str();
}

namespace {
std::string tagstr(std::vector<int> t)
{
    std::sort(t.begin(), t.end());
    t.erase(std::unique(t.begin(), t.end()), t.end());
    std::string s = "{";
    for (int v : t)
        s += std::to_string(v) + " ";
    s += "}";
    return s;
}
void decl_summary(std::ostringstream& os, const std::vector<MDecl>& ds)
{
    for (auto& d : ds)
        if (d.kind == MDecl::VAR)
            os << "  var " << d.name << " dims=" << d.dims << " " << tagstr(d.tags) << "\n";
    for (auto& d : ds)
        if (d.kind == MDecl::FUN)
            os << "  fun " << d.name << " " << tagstr(d.tags) << " shape=" << d.shape << "\n";
    for (auto& d : ds)
        if (d.kind == MDecl::TYPEDEF)
            os << "  typedef " << d.name << " " << tagstr(d.tags) << "\n";
}
}  // namespace

std::string expected_summary(const Model& m, bool)
{
    std::ostringstream os;
    os << "globals\n";
    {
        std::vector<MDecl> g = m.gdecls;
        g.insert(g.end(), m.sys_decls.begin(), m.sys_decls.end());
        decl_summary(os, g);
    }
    for (auto& t : m.templs) {
        if (t.dynamic)
            continue;  // kept in the document's list of dynamic templates, not among the templates
        os << "template " << t.name << "\n";
        for (auto& p : t.params)
            os << "  param " << p.name << " " << (p.byref ? "ref" : "val") << " " << tagstr(p.tags) << "\n";
        decl_summary(os, t.decls);
        for (auto& l : t.locs)
            os << "  loc " << l.docname() << " " << (l.committed ? "C" : (l.urgent ? "U" : "-")) << " inv=" << tagstr(l.inv.tags)
               << " rate=" << tagstr(l.rate.tags) << "\n";
        for (auto& b : t.bps)
            os << "  bp " << b.docname() << "\n";
        os << "  init " << (t.locs.empty() ? std::string{"<none>"} : t.locs[t.init].docname()) << "\n";
        for (auto& e : t.edges) {
            os << "  edge " << (e.srcb ? t.bps[e.src].docname() : t.locs[e.src].docname()) << " -> "
               << (e.dstb ? t.bps[e.dst].docname() : t.locs[e.dst].docname()) << " ctrl=" << e.control << " select=";
            for (auto& n : e.select_names)
                os << n << ",";
            os << tagstr(e.select.tags) << " guard=" << tagstr(e.guard.tags) << " sync=" << tagstr(e.sync.tags);
            if (e.sync.present())
                os << e.sync.text.back();
            os << " assign=" << tagstr(e.assign.tags) << " prob=" << tagstr(e.prob.tags) << "\n";
        }
    }
    if (!m.chan_priority.empty() && m.system_raw.empty()) {
        // "chan priority a < b , default;" -> "chanprio a < b , default" (array channels by their name)
        std::string body = m.chan_priority.substr(std::strlen("chan priority "));
        if (!body.empty() && body.back() == ';')
            body.pop_back();
        os << "chanprio";
        std::string word;
        auto flush = [&] {
            if (!word.empty()) {
                size_t br = word.find('[');
                os << " " << (br == std::string::npos ? word : word.substr(0, br));
                word.clear();
            }
        };
        for (char ch : body) {
            if (ch == ' ')
                flush();
            else if (ch == '<' || ch == ',') {
                flush();
                os << " " << ch;
            } else
                word += ch;
        }
        flush();
        os << "\n";
    }
    size_t sys_index = 0;
    int prio = 0;
    for (auto& s : m.system) {
        // each '<' in the system line starts a group of higher priority
        if (sys_index > 0 && sys_index - 1 < m.prio_lt.size() && m.prio_lt[sys_index - 1])
            ++prio;
        ++sys_index;
        const MInst* in = nullptr;
        for (auto& i : m.insts)
            if (i.name == s)
                in = &i;
        const MTempl* t = nullptr;
        for (auto& tt : m.templs)
            if (tt.name == (in ? in->templ : s))
                t = &tt;
        if (!t)
            continue;
        if (!in) {
            os << "process " << s << " of " << t->name << " unbound=" << t->params.size() << " prio=" << prio << "\n";
            for (size_t i = 0; i < t->params.size(); ++i)
                os << "  #" << i << " " << t->params[i].name << " = <unbound>\n";
            continue;
        }
        // parameter list of a (possibly chained) instance: its own free parameters first, then the list of what it
        // instantiates with that one's free parameters bound, in order, to this instance's arguments
        std::function<std::vector<std::pair<std::string, std::string>>(const MInst&)> plist = [&](const MInst& x) {
            std::vector<std::pair<std::string, std::string>> r;
            for (auto& fp : x.free_params)
                r.emplace_back(fp.name, "<unbound>");
            auto bind = [](const MArg& a) { return a.tag ? tagstr({a.tag}) : "{}" + a.ident; };
            if (x.base.empty()) {
                for (size_t i = 0; i < t->params.size(); ++i)
                    r.emplace_back(t->params[i].name, bind(x.args[i]));
            } else {
                const MInst* b = nullptr;
                for (auto& i : m.insts)
                    if (i.name == x.base)
                        b = &i;
                auto inner = plist(*b);
                size_t k = 0;
                for (auto& e : inner) {
                    if (e.second == "<unbound>" && k < x.args.size())
                        e.second = bind(x.args[k++]);
                    r.push_back(e);
                }
            }
            return r;
        };
        auto pl = plist(*in);
        os << "process " << s << " of " << t->name << " unbound=" << in->free_params.size() << " prio=" << prio << "\n";
        size_t k = 0;
        for (auto& e : pl)
            os << "  #" << k++ << " " << e.first << " = " << e.second << "\n";
    }
    return os.str();
}

// ---------------------------------------------------------------------------------------------
const char* BlockRef::field() const
{
    switch (kind) {
    case INV: return "invariant";
    case RATE: return "exprate";
    case SELECT: return "select";
    case GUARD: return "guard";
    case SYNC: return "sync";
    case ASSIGN: return "assign";
    case PROB: return "prob";
    default: return "";
    }
}
const char* BlockRef::kind_name() const
{
    switch (kind) {
    case GDECL: return "global-declaration";
    case TDECL: return "local-declaration";
    case PARAM: return "parameter";
    case INV: return "invariant";
    case RATE: return "exponentialrate";
    case SELECT: return "select";
    case GUARD: return "guard";
    case SYNC: return "synchronisation";
    case ASSIGN: return "assignment";
    case PROB: return "probability";
    case SYSTEM: return "system";
    }
    return "?";
}

std::vector<BlockRef> list_blocks(const Model& m)
{
    std::vector<BlockRef> v;
    auto add = [&](BlockRef::Kind k, int t, int i, const std::string& xp) {
        BlockRef b;
        b.kind = k;
        b.templ = t;
        b.index = i;
        b.xpath = xp;
        v.push_back(b);
    };
    if (!m.gdecls.empty())
        add(BlockRef::GDECL, -1, -1, "/nta/declaration");
    for (size_t ti = 0; ti < m.templs.size(); ++ti) {
        auto& t = m.templs[ti];
        if (t.dynamic)
            continue;  // (counted in the XPath index of the templates that follow, but its own blocks are not faulted)
        std::string tp = "/nta/template[" + std::to_string(ti + 1) + "]";
        if (!t.params.empty())
            add(BlockRef::PARAM, (int)ti, -1, tp + "/parameter");
        if (!t.decls.empty())
            add(BlockRef::TDECL, (int)ti, -1, tp + "/declaration");
        for (size_t li = 0; li < t.locs.size(); ++li) {
            int k = 0;
            std::string lp = tp + "/location[" + std::to_string(li + 1) + "]";
            if (t.locs[li].inv.present())
                add(BlockRef::INV, (int)ti, (int)li, lp + "/label[" + std::to_string(++k) + "]");
            if (t.locs[li].rate.present())
                add(BlockRef::RATE, (int)ti, (int)li, lp + "/label[" + std::to_string(++k) + "]");
        }
        for (size_t ei = 0; ei < t.edges.size(); ++ei) {
            int k = 0;
            auto& e = t.edges[ei];
            std::string ep = tp + "/transition[" + std::to_string(ei + 1) + "]";
            if (e.select.present())
                add(BlockRef::SELECT, (int)ti, (int)ei, ep + "/label[" + std::to_string(++k) + "]");
            if (e.guard.present())
                add(BlockRef::GUARD, (int)ti, (int)ei, ep + "/label[" + std::to_string(++k) + "]");
            if (e.sync.present())
                add(BlockRef::SYNC, (int)ti, (int)ei, ep + "/label[" + std::to_string(++k) + "]");
            if (e.assign.present())
                add(BlockRef::ASSIGN, (int)ti, (int)ei, ep + "/label[" + std::to_string(++k) + "]");
            if (e.prob.present())
                add(BlockRef::PROB, (int)ti, (int)ei, ep + "/label[" + std::to_string(++k) + "]");
        }
    }
    add(BlockRef::SYSTEM, -1, -1, "/nta/system");
    return v;
}

static Label* label_of(Model& m, const BlockRef& b)
{
    auto& t = m.templs[b.templ];
    switch (b.kind) {
    case BlockRef::INV: return &t.locs[b.index].inv;
    case BlockRef::RATE: return &t.locs[b.index].rate;
    case BlockRef::SELECT: return &t.edges[b.index].select;
    case BlockRef::GUARD: return &t.edges[b.index].guard;
    case BlockRef::SYNC: return &t.edges[b.index].sync;
    case BlockRef::ASSIGN: return &t.edges[b.index].assign;
    case BlockRef::PROB: return &t.edges[b.index].prob;
    default: return nullptr;
    }
}

std::string get_block_text(const Model& m, const BlockRef& b)
{
    switch (b.kind) {
    case BlockRef::GDECL: return join_decls(m.gdecls);
    case BlockRef::TDECL: return join_decls(m.templs[b.templ].decls);
    case BlockRef::PARAM: return join_params(m.templs[b.templ].params, m.old_syntax ? "; " : ", ");
    case BlockRef::SYSTEM: return system_text(m);
    default: return label_of(const_cast<Model&>(m), b)->text;
    }
}

void set_block_text(Model& m, const BlockRef& b, const std::string& text)
{
    // declaration-like blocks are replaced by a single pseudo declaration carrying the whole text
    auto one_decl = [&](std::vector<MDecl>& ds) {
        MDecl d;
        d.text = text;
        d.name = "<faulted>";
        ds.clear();
        ds.push_back(d);
    };
    switch (b.kind) {
    case BlockRef::GDECL: one_decl(m.gdecls); break;
    case BlockRef::TDECL: one_decl(m.templs[b.templ].decls); break;
    case BlockRef::PARAM: {
        MParam p;
        p.text = text;
        p.name = "<faulted>";
        m.templs[b.templ].params.clear();
        m.templs[b.templ].params.push_back(p);
        break;
    }
    case BlockRef::SYSTEM: {
        m.system_raw = text;
        break;
    }
    default: label_of(m, b)->text = text; break;
    }
}

}  // namespace sim
