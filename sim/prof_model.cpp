// Profiles mirror (C04), twin (C05) and writer (C20): a generated abstract model M is stored, delivered
// through scheduler-chosen entry points and schedules, interleaved with other clients' loads, and the
// resulting Document (or written file) is compared with M.
#include "prof_common.h"
#include "xmlview.h"

#include <algorithm>
#include <sstream>
#include <sys/stat.h>
#include <unistd.h>

namespace sim {

static void do_noise(RunCtx& ctx, Rng& rng, int& step, int n)
{
    for (int i = 0; i < n; ++i) {
        std::string what;
        CallSpec c = noise_call(ctx, rng, what);
        int st = step++;
        if (!ctx.keep(st))
            continue;
        Session other;
        ctx.hint = "noise:" + what;
        bool saved = ctx.c06_applicable;
        ctx.c06_applicable = false;
        ctx.call(other, c, st);
        ctx.c06_applicable = saved;
        ctx.event("noise");
        other.drop();
    }
}

// ---------------------------------------------------------------------------------------------
// mirror
// ---------------------------------------------------------------------------------------------
void profile_mirror(RunCtx& ctx)
{
    Rng rng{ctx.run_seed};
    GenCfg cfg;
    Model m = small_or_drawn_model(ctx, rng, cfg, true, true);
    XmlKnobs kn = draw_knobs(rng);
    std::string family = "plain";
    if (ctx.family == "comment-in-text") {
        kn.comment_in_text = true;
        family = "text-split-by-comment";
    } else if (ctx.family == "rate-first") {
        kn.rate_before_invariant = true;
        family = "rate-before-invariant";
    }
    if (rng.chance(0.1)) {
        kn.split_instantiation = true;
        ctx.count("models-with-instantiation-element");
    }
    if (rng.chance(0.12)) {
        localize_ids(m, rng);
        ctx.count("models-with-template-local-ids");
    }
    Rng render_rng = rng.fork();
    const std::string xml = render_xml(m, kn, render_rng);
    const std::string expected = expected_summary(m, true);
    ctx.sample("mirror model (" + knobs_str(kn) + "):\n" + xml.substr(0, 1500));
    ctx.count("models");
    ctx.count("family:" + family);
    ctx.count(std::string{"knob:escape="} + std::to_string(kn.text_escape));
    if (m.has_branchpoints())
        ctx.count("models-with-branchpoints");
    if (m.has_free_process_params())
        ctx.count("models-with-free-process-parameters");
    for (auto& i : m.insts)
        if (!i.base.empty()) {
            ctx.count("models-with-chained-instantiations");
            break;
        }
    size_t nedges = 0;
    for (auto& t : m.templs)
        nedges += t.edges.size();
    ctx.count("model-edges", nedges);

    int step = 0;
    std::vector<int> entries{E_XML_BUFFER, E_XML_FILE, E_XML_FD};
    for (size_t i = entries.size(); i > 1; --i)
        std::swap(entries[i - 1], entries[rng.below((uint32_t)i)]);
    std::string first_dump;
    std::string first_entry;
    for (int e : entries) {
        do_noise(ctx, rng, step, rng.below(3));
        CallSpec c;
        c.entry = e;
        c.backend = rng.chance(0.8) ? B_DOC : B_BUILDER;
        c.newxta = !m.old_syntax;
        c.bytes = xml;
        c.sched = ctx.draw_sched(rng, false);
        c.ceiling = default_ceiling(xml.size());
        int st = step++;
        if (!ctx.keep(st))
            continue;
        if (!(ctx.simplify & SIMP_NOJUMP) && rng.chance(0.2))
            clock_jump(ctx, (uint64_t)clock_now() + (1ull << rng.range(8, 30)));
        Session s;
        ctx.hint = "mirror:" + family;
        CallResult r = ctx.call(s, c, st);
        if (ctx.violations)
            return;
        ctx.event(std::string{"load "} + entry_name(e));
        if (r.threw || r.ret != 0) {
            if (ctx.violation("C04", "well-formed-model-rejected", "rejected|" + family + "|" + r.exc_class,
                              "a generated well-formed model ended in " + (r.threw ? r.exc_class + ": " + r.exc_what : "ret " + std::to_string(r.ret)) +
                                  " via " + c.str()))
                return;
            continue;
        }
        if (s.doc->has_errors()) {
            ctx.count("models-not-accepted");
            ctx.explain_line("not accepted: " + dump_diagnostics(*s.doc, DumpOpts{}));
        } else
            ctx.count("models-accepted");
        std::string got = summarize_document(*s.doc);
        if (got != expected) {
            std::string d = first_diff(expected, got);
            // signature: which kind of line differs
            std::string exp_line = d.substr(d.find('[') + 1);
            std::string kind = first_word(exp_line);
            if (kind == "<end>]")
                kind = "extra";
            if (ctx.violation("C04", "mirror-mismatch", "mirror|" + family + "|" + kind,
                              "document does not mirror the model (expected vs built) " + d + " via " + c.str() + " knobs " + knobs_str(kn)))
                return;
        }
        ctx.count("mirror-comparisons");
        ctx.event(std::to_string(fnv1a(got)));
        // second oracle: every entry point and every schedule yields the same document for the same bytes
        if (c.backend == B_DOC) {
            std::string dump = dump_document(*s.doc, DumpOpts{});
            if (first_dump.empty()) {
                first_dump = dump;
                first_entry = c.str();
            } else {
                ctx.count("entry-point-comparisons");
                if (dump != first_dump) {
                    if (ctx.violation("C04", "entry-point-divergence", std::string{"divergence|"} + family,
                                      "same bytes, different documents: " + first_entry + " vs " + c.str() + ": " + first_diff(first_dump, dump)))
                        return;
                }
            }
        }
        s.drop();
    }
}

// ---------------------------------------------------------------------------------------------
// twin
// ---------------------------------------------------------------------------------------------
void profile_twin(RunCtx& ctx)
{
    Rng rng{ctx.run_seed};
    GenCfg cfg;
    Model m = small_or_drawn_model(ctx, rng, cfg, true, true);
    m.queries.clear();
    // optional seeded semantic error so that diagnostics are compared too
    std::string seeded;
    if (rng.chance(0.35)) {
        auto blocks = list_blocks(m);
        std::vector<BlockRef> cands;
        for (auto& b : blocks)
            if (b.kind == BlockRef::GUARD || b.kind == BlockRef::INV || b.kind == BlockRef::ASSIGN)
                cands.push_back(b);
        if (!cands.empty()) {
            auto b = cands[rng.below((uint32_t)cands.size())];
            std::string text = get_block_text(m, b);
            auto toks = tokenize(text);
            int f = rng.chance(0.5) ? TF_CHAN_ARITH : TF_UNDECLARED;
            size_t ti = f == TF_CHAN_ARITH ? toks.size() - 1 : rng.below((uint32_t)toks.size());
            auto fr = apply_token_fault(text, toks, ti, f, b.kind, "ch0");
            // only semantic errors: a syntax error is contained in its block by the XML reader but is recovered at
            // statement boundaries in a whole XTA file, so the two formats legitimately report different follow-ups
            if (fr.applied && !fr.type_position) {
                set_block_text(m, b, fr.text);
                seeded = std::string{token_fault_name(f)} + " in " + b.kind_name();
                ctx.count("twin-models-with-seeded-error");
            }
        }
    }
    // ... or a model-level semantic fault that both formats can express (duplicate names, wrong argument counts,
    // unknown templates / processes): the recovered documents and their diagnostics must agree as well
    if (seeded.empty() && rng.chance(0.25)) {
        static const int kinds[] = {MF_DUP_LOC_NAME, MF_DROP_ARG, MF_EXTRA_ARG, MF_UNKNOWN_TEMPLATE, MF_DUP_PROCESS,
                                    MF_UNKNOWN_PROCESS, MF_DUP_DECL, MF_DUP_PARAM, MF_DUP_TEMPLATE_NAME, MF_EMPTY_TEMPLATE,
                                    MF_FUNC_NO_RETURN, MF_EXTRA_INITIALISER, MF_URGENT_AND_COMMITTED, MF_DYNAMIC_PARAM_MISMATCH, MF_RANDOM_INIT, MF_BAD_ITERATION_TYPE};
        int f = kinds[rng.below(sizeof kinds / sizeof kinds[0])];
        // two bodies for one dynamic template put namesake locations into one scope: the same ambiguity as below
        bool has_dyn = false;
        for (auto& t : m.templs)
            has_dyn |= t.dynamic;
        // (the old syntax has no empty process body)
        if (!(f == MF_DUP_TEMPLATE_NAME && has_dyn) && !(f == MF_EMPTY_TEMPLATE && m.old_syntax) && apply_model_fault(m, f, rng, true)) {
            if (f == MF_DUP_LOC_NAME) {
                // XTA attaches urgent/commit flags by name, XML by element: for namesakes only "no flag" means the same in both
                for (auto& t : m.templs)
                    for (auto& a : t.locs)
                        for (auto& b : t.locs)
                            if (&a != &b && a.docname() == b.docname())
                                a.urgent = a.committed = b.urgent = b.committed = false;
            }
            seeded = std::string{"model:"} + model_fault_name(f);
            ctx.count("twin-models-with-seeded-error");
            ctx.count(std::string{"content-fault:model:"} + model_fault_name(f));
        }
    }
    XmlKnobs kn = draw_knobs(rng);
    Rng render_rng = rng.fork();
    const std::string xml = render_xml(m, kn, render_rng);
    const std::string xta = render_xta(m);
    ctx.sample("twin xta:\n" + xta.substr(0, 1500));
    ctx.count("models");
    DumpOpts o;
    o.positions = false;
    o.paths = false;
    o.diag_as_multiset = true;
    o.twin = true;

    int step = 0;
    struct Side
    {
        int entry;
        const std::string* bytes;
    };
    std::vector<Side> sides{{(int)rng.below(3), &xml}, {E_XTA_STR, &xta}, {E_XTA_FILE, &xta}};
    for (size_t i = sides.size(); i > 1; --i)
        std::swap(sides[i - 1], sides[rng.below((uint32_t)i)]);
    std::string ref_dump, ref_desc;
    bool ref_is_xml = false;
    for (auto& sd : sides) {
        do_noise(ctx, rng, step, rng.below(3));
        CallSpec c;
        c.entry = sd.entry;
        c.backend = B_DOC;
        c.newxta = !m.old_syntax;
        c.bytes = *sd.bytes;
        c.sched = ctx.draw_sched(rng, false);
        if (c.entry == E_XTA_FILE && rng.chance(0.3)) {
            // a read interrupted by a signal before it delivered anything is retried by the scanner: the delivery stays
            // unobservable. (Only the first read: an interruption in the middle of an fread leaves the stream's error
            // flag set, and the flex-generated reader then reports "input in flex scanner failed" at the end of the file
            // - allowed by C01, and not a matter of the input format.)
            c.sched = Sched{};
            c.sched.fault_kind = IO_EINTR;
            c.sched.fault_at = 1;
            ctx.count("twin-xta-file-reads-interrupted");
        }
        c.ceiling = default_ceiling(c.bytes.size());
        int st = step++;
        if (!ctx.keep(st))
            continue;
        Session s;
        ctx.hint = "twin" + (seeded.empty() ? std::string{} : ":" + seeded);
        CallResult r = ctx.call(s, c, st);
        if (ctx.violations)
            return;
        ctx.event(std::string{"load "} + entry_name(c.entry));
        std::string dump = r.threw ? "threw " + r.exc_class : dump_document(*s.doc, o);
        ctx.event(std::to_string(fnv1a(dump)));
        if (!r.threw && !s.doc->has_errors())
            ctx.count("models-accepted");
        if (ref_dump.empty()) {
            ref_dump = dump;
            ref_desc = c.str();
            ref_is_xml = c.is_xml();
        } else {
            ctx.count("twin-comparisons");
            if (c.is_xml() != ref_is_xml)
                ctx.count("twin-comparisons-across-formats");
            if (dump != ref_dump) {
                std::string d = first_diff(ref_dump, dump);
                std::string kind = first_word(d.substr(d.find('[') + 1));
                std::string cls = c.is_xml() != ref_is_xml ? "format-observable" : "delivery-observable";
                if (ctx.violation("C05", cls, cls + "|" + kind, ref_desc + " vs " + c.str() + ": " + d + (seeded.empty() ? "" : " seeded: " + seeded)))
                    return;
            }
        }
        s.drop();
    }
}

// ---------------------------------------------------------------------------------------------
// writer
// ---------------------------------------------------------------------------------------------
namespace {
std::string tagset(const std::set<int>& t)
{
    std::string s = "{";
    for (int v : t)
        s += std::to_string(v) + " ";
    return s + "}";
}
std::set<int> etags(const UTAP::expression_t& e)
{
    std::set<int> t;
    collect_tags(e, t);
    return t;
}
std::set<int> label_tags(const std::vector<WLabel>& ls, const char* kind, int& count)
{
    std::set<int> t;
    count = 0;
    for (auto& l : ls)
        if (l.kind == kind) {
            ++count;
            auto x = text_tags(l.text);
            t.insert(x.begin(), x.end());
        }
    return t;
}
}  // namespace

/** compares the written file with the Document that was written; returns "" or the first discrepancy with its kind in `kind` */
static std::string compare_written(UTAP::Document& doc, const WDoc& w, std::string& kind)
{
    TraversalScope traversal_scope;
    auto& templs = doc.get_templates();
    if (w.templs.size() != templs.size()) {
        kind = "template-count";
        return "written " + std::to_string(w.templs.size()) + " templates, document has " + std::to_string(templs.size());
    }
    size_t ti = 0;
    for (auto& t : templs) {
        const WTempl& wt = w.templs[ti++];
        std::string where = "template " + t.uid.get_name() + ": ";
        if (wt.name != t.uid.get_name()) {
            kind = "template-name";
            return where + "written name '" + wt.name + "'";
        }
        if (wt.locs.size() != t.locations.size()) {
            kind = "location-count";
            return where + std::to_string(wt.locs.size()) + " location elements for " + std::to_string(t.locations.size()) + " locations";
        }
        std::map<std::string, std::string> id2name;
        std::set<std::string> ids;
        size_t li = 0;
        for (auto& l : t.locations) {
            const WLoc& wl = wt.locs[li++];
            if (wl.id.empty() || !ids.insert(wl.id).second) {
                kind = "location-id";
                return where + "location id '" + wl.id + "' missing or not unique";
            }
            const std::string& nm = l.uid.get_name();
            id2name[wl.id] = nm;
            // an id-derived name ("_id7") may be written as an anonymous location
            if (wl.name != nm && !(wl.name.empty() && nm.size() > 0 && nm[0] == '_')) {
                kind = "location-name";
                return where + "location '" + nm + "' written with name '" + wl.name + "'";
            }
            int n = 0;
            std::set<int> inv = etags(l.invariant), cr = etags(l.cost_rate);
            inv.insert(cr.begin(), cr.end());
            auto winv = label_tags(wl.labels, "invariant", n);
            if (winv != inv) {
                kind = "invariant-label";
                return where + "location '" + nm + "' invariant tags " + tagset(winv) + " expected " + tagset(inv);
            }
            auto wr = label_tags(wl.labels, "exponentialrate", n);
            if (wr != etags(l.exp_rate)) {
                kind = "rate-label";
                return where + "location '" + nm + "' rate tags " + tagset(wr) + " expected " + tagset(etags(l.exp_rate));
            }
        }
        for (auto& b : wt.branchpoints) {
            if (b.empty() || !ids.insert(b).second) {
                kind = "branchpoint-id";
                return where + "branchpoint id '" + b + "' missing or not unique";
            }
        }
        if (wt.branchpoints.size() == t.branchpoints.size()) {
            size_t bi = 0;
            for (auto& b : t.branchpoints)
                id2name[wt.branchpoints[bi++]] = b.uid.get_name();
        } else if (!t.branchpoints.empty()) {
            kind = "branchpoint-count";
            return where + std::to_string(wt.branchpoints.size()) + " branchpoint elements for " + std::to_string(t.branchpoints.size());
        }
        if (wt.inits.size() != 1) {
            kind = "init-count";
            return where + std::to_string(wt.inits.size()) + " init references";
        }
        if (!(t.init == UTAP::symbol_t{}) && id2name[wt.inits[0]] != t.init.get_name()) {
            kind = "init-ref";
            return where + "init refers to '" + id2name[wt.inits[0]] + "', initial location is '" + t.init.get_name() + "'";
        }
        if (wt.trans.size() != t.edges.size()) {
            kind = "transition-count";
            return where + std::to_string(wt.trans.size()) + " transitions for " + std::to_string(t.edges.size()) + " edges";
        }
        size_t ei = 0;
        for (auto& e : t.edges) {
            const WTrans& wtr = wt.trans[ei];
            std::string ew = where + "edge #" + std::to_string(ei) + ": ";
            ++ei;
            std::string src = e.src ? e.src->uid.get_name() : (e.srcb ? e.srcb->uid.get_name() : "");
            std::string dst = e.dst ? e.dst->uid.get_name() : (e.dstb ? e.dstb->uid.get_name() : "");
            if (!id2name.count(wtr.source) || id2name[wtr.source] != src) {
                kind = "source-ref";
                return ew + "source ref '" + wtr.source + "' does not identify '" + src + "'";
            }
            if (!id2name.count(wtr.target) || id2name[wtr.target] != dst) {
                kind = "target-ref";
                return ew + "target ref '" + wtr.target + "' does not identify '" + dst + "'";
            }
            bool wctrl = wtr.controllable.empty() || wtr.controllable == "true";
            if (wctrl != e.control) {
                kind = "controllable";
                return ew + "controllable attribute '" + wtr.controllable + "' for an edge with control=" + std::to_string(e.control);
            }
            int n = 0;
            std::set<int> sel;
            collect_tags(e.select, sel, false);
            auto wsel = label_tags(wtr.labels, "select", n);
            size_t nsel = e.select == UTAP::frame_t{} ? 0 : e.select.get_size();
            if (wsel != sel) {
                kind = "select-label";
                return ew + "select tags " + tagset(wsel) + " expected " + tagset(sel);
            }
            if (nsel > 0) {
                // every select name must appear in the written select label
                std::string all;
                for (auto& l : wtr.labels)
                    if (l.kind == "select")
                        all += l.text + " ";
                for (uint32_t k = 0; k < nsel; ++k)
                    if (all.find(e.select[k].get_name()) == std::string::npos) {
                        kind = "select-label";
                        return ew + "select '" + e.select[k].get_name() + "' missing from the written label '" + all + "'";
                    }
                // a binding over an integer range with literal bounds carries exactly those bounds in the written type
                // (read off the text independently of the library's type printer): "name : ... [lo,hi]"
                for (uint32_t k = 0; k < nsel; ++k) {
                    auto ty = e.select[k].get_type();
                    if (!ty.is(UTAP::Constants::RANGE))
                        continue;
                    // a range reached through a typedef name is rightly written as that name
                    {
                        auto bare = ty;
                        while (!(bare == UTAP::type_t{}) && bare.size() == 1 && bare.is_prefix())
                            bare = bare.get(0);
                        if (bare == UTAP::type_t{} || bare.get_kind() != UTAP::Constants::RANGE)
                            continue;
                    }
                    auto [lo, hi] = ty.get_range();
                    if (lo.empty() || hi.empty() || lo.get_kind() != UTAP::Constants::CONSTANT || hi.get_kind() != UTAP::Constants::CONSTANT)
                        continue;
                    const std::string want = "[" + std::to_string(lo.get_value()) + "," + std::to_string(hi.get_value()) + "]";
                    // the entry of this binding: from its name to the next top-level comma
                    const std::string nm = e.select[k].get_name();
                    size_t at = std::string::npos;
                    for (size_t p = all.find(nm); p != std::string::npos; p = all.find(nm, p + 1)) {
                        bool left_ok = p == 0 || !(std::isalnum((unsigned char)all[p - 1]) || all[p - 1] == '_');
                        size_t q = p + nm.size();
                        while (q < all.size() && std::isspace((unsigned char)all[q]))
                            ++q;
                        if (left_ok && q < all.size() && all[q] == ':') {
                            at = q + 1;
                            break;
                        }
                    }
                    if (at == std::string::npos)
                        continue;
                    std::string entry;
                    int depth = 0;
                    for (size_t p = at; p < all.size(); ++p) {
                        if (all[p] == '[')
                            ++depth;
                        else if (all[p] == ']')
                            --depth;
                        else if (all[p] == ',' && depth == 0)
                            break;
                        if (!std::isspace((unsigned char)all[p]))
                            entry += all[p];
                    }
                    if (entry.find(want) == std::string::npos && entry.find('[') == std::string::npos &&
                        !(lo.get_value() == -32768 && hi.get_value() == 32767)) {
                        kind = "select-label";
                        return ew + "select '" + nm + "' ranges over " + want + " but is written as '" + entry + "'";
                    }
                    if (entry.find('[') != std::string::npos && entry.find(want) == std::string::npos) {
                        kind = "select-label";
                        return ew + "select '" + nm + "' ranges over " + want + " but is written as '" + entry + "'";
                    }
                }
            }
            auto wg = label_tags(wtr.labels, "guard", n);
            if (wg != etags(e.guard)) {
                kind = "guard-label";
                return ew + "guard tags " + tagset(wg) + " expected " + tagset(etags(e.guard));
            }
            auto ws = label_tags(wtr.labels, "synchronisation", n);
            if (ws != etags(e.sync) || (n == 0) != e.sync.empty()) {
                kind = "sync-label";
                return ew + "synchronisation tags " + tagset(ws) + " expected " + tagset(etags(e.sync));
            }
            auto wa = label_tags(wtr.labels, "assignment", n);
            if (wa != etags(e.assign)) {
                kind = "assignment-label";
                return ew + "assignment tags " + tagset(wa) + " expected " + tagset(etags(e.assign));
            }
            auto wp = label_tags(wtr.labels, "probability", n);
            if (wp != etags(e.prob)) {
                kind = "probability-label";
                return ew + "probability tags " + tagset(wp) + " expected " + tagset(etags(e.prob));
            }
        }
    }
    return "";
}

void profile_writer(RunCtx& ctx)
{
    Rng rng{ctx.run_seed};
    GenCfg cfg;
    Model m;
    {
        cfg = draw_cfg(rng);
        if (ctx.simplify & SIMP_SMALLMODEL) {
            cfg.max_templates = 1;
            cfg.max_locs = 2;
            cfg.max_edges = 2;
            cfg.max_gdecls = 3;
            cfg.multiline = false;
        }
        // sub-families so that one crash cannot hide the rest
        if (ctx.family == "branchpoints") {
            cfg.branchpoints = true;
            cfg.free_process_params = false;
        } else if (ctx.family == "free-params") {
            cfg.branchpoints = false;
            cfg.free_process_params = true;
            cfg.partial_inst = true;
        } else {
            cfg.branchpoints = false;
            cfg.free_process_params = false;
        }
        m = gen_model(rng, cfg);
    }
    const bool iofault = ctx.family == "iofault";
    XmlKnobs kn = draw_knobs(rng);
    Rng render_rng = rng.fork();
    const std::string xml = render_xml(m, kn, render_rng);
    ctx.count("models");
    ctx.count("family:" + (ctx.family.empty() ? std::string{"plain"} : ctx.family));
    int step = 0;
    if (ctx.family != "iofault" && rng.chance(0.3)) {
        // another client loaded, saved and dropped a different model before (heap addresses are reused afterwards)
        int st0 = step++, st1 = step++;
        if (ctx.keep(st0) && ctx.keep(st1)) {
            GenCfg c2 = draw_cfg(rng);
            c2.branchpoints = cfg.branchpoints;
            c2.free_process_params = false;
            Model m2 = gen_model(rng, c2);
            XmlKnobs k2 = draw_knobs(rng);
            Rng r2 = rng.fork();
            CallSpec lc;
            lc.entry = E_XML_BUFFER;
            lc.backend = B_DOC;
            lc.bytes = render_xml(m2, k2, r2);
            lc.ceiling = default_ceiling(lc.bytes.size());
            Session other;
            ctx.hint = "writer:earlier-session-load";
            CallResult lr = ctx.call(other, lc, st0);
            if (ctx.violations)
                return;
            if (!lr.threw && other.doc && !other.doc->has_errors()) {
                CallSpec wc;
                wc.entry = E_WRITE;
                wc.bytes = "earlier.xml";
                wc.ceiling = default_ceiling(lc.bytes.size() * 4 + 20000);
                ctx.hint = "writer:earlier-session-write";
                ctx.call(other, wc, st1, false);
                if (ctx.violations)
                    return;
                ctx.count("writer-earlier-sessions");
            }
            other.drop();
        }
    }
    Session s;
    {
        CallSpec c;
        c.entry = E_XML_BUFFER;
        c.backend = B_DOC;
        c.bytes = xml;
        c.ceiling = default_ceiling(xml.size());
        int st = step++;
        ctx.hint = "writer:load";
        CallResult r = ctx.call(s, c, st);
        if (ctx.violations)
            return;
        if (r.threw || r.ret != 0 || s.doc->has_errors()) {
            ctx.count("models-not-accepted");
            return;
        }
        ctx.count("models-accepted");
    }
    do_noise(ctx, rng, step, rng.below(2));
    // family realfile: the output goes to a real file that may already exist (shorter or longer than what will be
    // written); the file system is the one thing here that is not simulated, so the pre-state is planned from the seed
    const bool realfile = ctx.family == "realfile";
    std::string real_dir, real_path;
    if (realfile) {
        real_dir = std::string{access("/dev/shm", W_OK) == 0 ? "/dev/shm" : "/tmp"} + "/utapsim." + std::to_string(getpid());
        mkdir(real_dir.c_str(), 0700);
        real_path = real_dir + "/out.xml";
        int pre = rng.below(4);
        if (pre > 0) {
            std::string old = pre == 1 ? std::string{"<nta/>\n"} : (pre == 2 ? xml + xml + xml + std::string(20000, 'x') : std::string(200000, '\n'));
            FILE* f = fopen(real_path.c_str(), "w");
            if (f) {
                fwrite(old.data(), 1, old.size(), f);
                fclose(f);
            }
        }
        ctx.count(std::string{"realfile-prestate:"} + (pre == 0 ? "absent" : (pre == 1 ? "shorter" : "longer")));
    }
    struct Cleanup
    {
        std::string dir, path;
        ~Cleanup()
        {
            if (!dir.empty()) {
                unlink(path.c_str());
                rmdir(dir.c_str());
            }
        }
    } cleanup{real_dir, real_path};
    CallSpec w;
    w.entry = E_WRITE;
    w.bytes = realfile ? real_path : "out.xml";
    w.sched = ctx.draw_sched(rng, iofault, true);
    w.ceiling = default_ceiling(xml.size() * 4 + 20000);
    int st = step++;
    ctx.hint = std::string{"writer:"} + (m.has_branchpoints() ? "branchpoint-edges" : (m.has_free_process_params() ? "free-process-parameters" : "plain"));
    CallResult r = ctx.call(s, w, st, false);
    if (ctx.violations)
        return;
    ctx.event("write " + w.sched.str() + (r.threw ? " threw " + r.exc_class : " ret " + std::to_string(r.ret)) + " fired " +
              std::to_string(r.ctx.io_fault_fired) + " model " + std::to_string(fnv1a(xml)));
    Sink* sink = sink_get("out.xml");
    if (iofault) {
        // class C: only "no crash, returns or throws std::exception" is demanded; the rest is a probe
        if (r.ctx.io_fault_fired != IO_NONE) {
            if (!r.threw && r.ret == 0)
                ctx.count("probe:write-returned-0-despite-io-error");
            else
                ctx.count("probe:write-reported-io-error");
        }
        return;
    }
    if (r.threw) {
        if (ctx.violation("C20", "writer-threw", "writer-threw|" + r.exc_class + "|" + ctx.hint, "write_XML_file threw " + r.exc_class + ": " + r.exc_what))
            return;
        return;
    }
    Sink real_sink;
    if (realfile) {
        FILE* f = fopen(real_path.c_str(), "r");
        if (f) {
            char buf[65536];
            size_t n;
            while ((n = fread(buf, 1, sizeof buf, f)) > 0)
                real_sink.data.append(buf, n);
            fclose(f);
            sink = &real_sink;
        } else
            sink = nullptr;
    }
    if (!sink) {
        ctx.violation("C20", "no-output", "no-output", "write_XML_file returned " + std::to_string(r.ret) + " without opening the sink");
        return;
    }
    ctx.sample("written file:\n" + sink->data.substr(0, 1500));
    WDoc wd;
    std::string err;
    if (!parse_written(sink->data, wd, err)) {
        ctx.violation("C20", "not-well-formed", "not-well-formed|" + ctx.hint, "written file is not well-formed XML: " + err);
        return;
    }
    ctx.count("written-files-compared");
    ctx.count("written-bytes", sink->data.size());
    ctx.event(std::to_string(fnv1a(sink->data)));
    std::string kind;
    std::string why = compare_written(*s.doc, wd, kind);
    if (!why.empty())
        ctx.violation("C20", "written-graph-mismatch", "writer|" + kind, why + " (" + w.str() + ")");
}

}  // namespace sim
