// Orchestrator, run processes, shrinking and replay (DESIGN.md 3.3, 3.6, 3.10).
#pragma once
#include "exec.h"
#include "gen.h"

#include <map>
#include <set>
#include <string>
#include <vector>

namespace sim {

enum Simplify { SIMP_SCHED = 1, SIMP_NOJUMP = 2, SIMP_NOERRNO = 4, SIMP_NOARENA = 8, SIMP_SMALLMODEL = 16 };

struct RunCtx
{
    uint64_t run_seed{0};
    std::string profile;
    bool thorough{false};
    bool explain{false};
    std::set<int> dropped;  // step indices removed by the shrinker
    int simplify{0};
    std::set<std::string> armed;  // property ids whose violations are reported
    std::string family;           // optional sub-family selector (e.g. "comment-in-text")
    int out_fd{1};
    std::map<std::string, uint64_t> counters;
    std::vector<std::string> samples;
    uint64_t event_hash{1469598103934665603ULL};
    uint64_t interleaving_hash{0};  // hash of the run's sequence of (client, entry point, fault kind); 0 = the profile has none
    int nsteps{0};
    int violations{0};
    std::string hint;  // what was done to the input of the current call (part of crash signatures)
    bool c06_applicable{true};  // the current input is a model (structure intact), so C06a applies
    int watchdog_s{10};

    bool keep(int step) const { return dropped.count(step) == 0; }
    void count(const std::string& key, uint64_t n = 1) { counters[key] += n; }
    void sample(const std::string& s)
    {
        if (samples.size() < 3)
            samples.push_back(s);
    }
    /** marks the step that is about to run (crash attribution) */
    void step(int index, const std::string& desc);
    /** feeds the determinism hash */
    void event(const std::string& what);
    void explain_line(const std::string& s);
    /** reports a violation of `property`; returns true when the run should stop */
    bool violation(const std::string& property, const std::string& cls, const std::string& signature,
                   const std::string& detail);
    bool is_armed(const std::string& p) const { return armed.empty() || armed.count(p) > 0; }

    // helpers shared by profiles ---------------------------------------------------------------
    /** executes a call with the watchdog armed and evaluates the always-on monitors (C01 class of the call itself,
     *  C08, C06a). `input_valid_for_c06` says whether C06a applies to this load (XML well-formed or plain text). */
    CallResult call(Session& s, const CallSpec& c, int step, bool monitors = true);
    Sched draw_sched(Rng& rng, bool allow_fault, bool writer = false);
};

using ProfileFn = void (*)(RunCtx&);
ProfileFn find_profile(const std::string& name);
std::vector<std::string> profile_names();

// profiles
void profile_history(RunCtx&);
void profile_storm(RunCtx&);
void profile_mirror(RunCtx&);
void profile_twin(RunCtx&);
void profile_blast(RunCtx&);
void profile_writer(RunCtx&);
void profile_selftest(RunCtx&);

/** corpus of model files under <repo>/test/models, loaded once by the orchestrator before any fork */
const std::vector<std::pair<std::string, std::string>>& corpus();
void load_corpus(const std::string& repo);

int runner_main(int argc, char** argv);

std::string json_escape(const std::string&);

}  // namespace sim
