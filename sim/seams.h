// Seams: every source of nondeterminism / every fault the simulator owns.
// No libutap header is needed here.
#pragma once
#include "rng.h"

#include <cstdint>
#include <cstdio>
#include <map>
#include <string>

namespace sim {

enum IoFault { IO_NONE = 0, IO_EINTR = 1, IO_EIO = 2, IO_EOF = 3, IO_ENOSPC = 4, IO_CLOSEFAIL = 5 };
const char* io_fault_name(int f);

/** delivery schedule of one call: how bytes cross the I/O boundary */
struct Sched
{
    int mode{0};         // 0 = as much as requested, 1 = fixed chunk, 2 = random chunk in [1,chunk]
    uint32_t chunk{0};   // chunk size for mode 1/2
    uint64_t seed{0};    // for mode 2
    int fault_at{0};     // 1-based index of the I/O callback that is faulted (0 = none)
    int fault_kind{IO_NONE};
    std::string str() const;
};

/** AM_POOL: a private size-class allocator at a fixed address with LIFO reuse of freed blocks. Addresses - and so the
 *  iteration order of pointer-keyed containers and what a stale pointer happens to alias - are a function of the run's own
 *  allocation sequence only, not of the orchestrator's heap at fork time; and a freed block is handed out again at once,
 *  which is the most hostile (still legal) behaviour towards caches keyed by raw pointers. */
enum AllocMode { AM_MALLOC = 0, AM_ARENA_UP = 1, AM_ARENA_DOWN = 2, AM_PAD = 3, AM_POOL = 4 };

/** what happened during the current / last library call (counted by the seams, never by the library) */
struct OpCtx
{
    bool in_call{false};
    int op_index{-1};
    uint64_t allocs{0};
    uint64_t alloc_bytes{0};
    int64_t fail_at{-1};  // fail the fail_at-th allocation of the call (1-based), -1 = never
    bool fail_fired{false};
    uint64_t io_calls{0};
    uint64_t io_bytes{0};
    int io_fault_fired{IO_NONE};
    uint64_t ceiling{0};  // allocs + io_calls limit (0 = none)
    int dlopen_refused{0};
    int lib_opens{0};    // open(2) of the simulated input file by the library itself
    int emfile{0};       // ... refused because the descriptors it leaked before used up the budget
    uint64_t xml_allocs{0};  // allocations made by libxml2 during the call (xmlMemSetup seam; counted, never failed)
    uint64_t xml_bytes{0};
    /** deterministic cost of the call so far: libutap allocations + I/O callbacks + libxml2 memory in 64-byte units */
    uint64_t cost() const { return allocs + io_calls + xml_bytes / 64; }
};
extern OpCtx g_op;

/** totals over the process life, for evidence */
struct SeamStats
{
    uint64_t reads_file{0}, reads_fd{0}, reads_cookie{0}, writes{0};
    uint64_t fired[8]{};  // by IoFault
    uint64_t alloc_fail_fired{0};
    uint64_t dlopen_refused{0};
    uint64_t arena_bytes{0};
};
extern SeamStats g_stats;

/** called when the deterministic cost ceiling is exceeded inside a call; must not return */
extern void (*g_on_ceiling)();
/** called when the process is exiting while a library call is active (exit() from inside the library) */
extern void (*g_on_exit_in_call)();

void seams_init();  // registers libxml2 callbacks, atexit hook, arena

// --- calls ---------------------------------------------------------------------------------
void begin_call(int op_index, int64_t alloc_fail_at, uint64_t ceiling);
void end_call();

// --- allocator -----------------------------------------------------------------------------
void alloc_set_mode(int mode);
int alloc_get_mode();
uint64_t alloc_total();  // allocations made by the process so far (all, not only in calls)

// --- SimStore ------------------------------------------------------------------------------
void store_put(const std::string& name, const std::string& bytes);
const std::string* store_get(const std::string& name);
/** schedule used by the next open of the simulated input file (parse_XML_file) */
void set_next_file_sched(const Sched&);
/** The simulated input file of parse_XML_file has a real path (a file with the right content exists there, so a library
 *  that opens it by any means reads the right bytes). libxml2's file layer is served by the registered input callbacks
 *  and an open(2) of that path by the interposed open: both deliver the bytes under the schedule. */
const std::string& sim_in_path();
void sim_in_publish(const std::string& bytes);  // store + real file
void sim_in_retire();                          // unlink; closes a descriptor the library opened and left open
/** the directory of this orchestrator's simulated files (created by main, removed when it exits) */
const std::string& sim_dir();
void sim_dir_create();
void sim_dir_remove();
/** Simulated descriptor table: descriptors the library opened itself (through the interposed open) and did not close
 *  stay allocated; with a budget set, an open beyond it fails with EMFILE (what RLIMIT_NOFILE does to a leaking process). */
void fd_budget_set(int budget);  // < 0: unlimited
int fd_leaked();                 // descriptors opened by the library in this process and still open
/** a descriptor whose read(2) is served from memory under the schedule; for parse_XML_fd */
int open_sim_fd(const std::string& bytes, const Sched&);
void close_sim_fd(int fd);
/** a FILE* whose reads are served from memory under the schedule; for parse_XTA(FILE*) */
FILE* open_sim_FILE(const std::string& bytes, const Sched&);

// --- output --------------------------------------------------------------------------------
void set_next_write_sched(const Sched&);
/** bytes accepted by the sink named name (sim://name) and whether close was reached */
struct Sink
{
    std::string data;
    bool closed{false};
    bool failed{false};
    int nwrites{0};
};
Sink* sink_get(const std::string& name);
void sink_reset(const std::string& name);

}  // namespace sim
