// Profile history (C15): several logical clients run sessions (the life of one Document) whose calls are
// interleaved by the seeded scheduler, with clock jumps, errno scrambling, allocator perturbation and
// class-C faults in between. Every call must equal the same call made when its session runs alone in a
// pristine process (a child forked before this process has made a single libutap call).
#include "prof_common.h"

#include "libparser.h"

#include <cerrno>
#include <cstring>
#include <sstream>
#include <sys/wait.h>
#include <unistd.h>

namespace sim {

const std::vector<std::string>& block_texts()
{
    static const std::vector<std::string> v{
        "int zz1 = 3;",
        "int zz2; clock zzx; chan zzc;",
        "gi0 > 2 && gx0 < 5",
        "gi0 = 1, gi0++",
        "ch0!",
        "zs : int[0,3]",
        "int pa, clock &pb",
        "/* open comment never closed",
        "gi0 > 1 /* also open",
        "forall (zi : int[0,3]) zi >",
        "gi0 +",
        "1 + 2 * 3",
        "gi0, gx0, 7",
        "zzP = T0(); system zzP;",
        "system T0;",
        "int zf(int a) { return a + 1; }\nint zg() { return zf(2); }",
        "typedef struct { int a; } zt; zt zv;",
        "gx0 <= 5",
        "3 : 4",
        "undeclared_thing + 1",
        "",
        "   \n\n  ",
        "// only a comment",
        // abandoned in the middle of productions that keep process-global parser state
        "int za[int[0,1]][3",
        "int zb[int[0,1]][int[0,2]][",
        "int zc[3]; int zd[2][4], ze;",
        "int zf[int[0,1]][2]; zf[0][1]",
        "void zg() { int i; for (i = 0; i < 3; i++) { if (i > 1) {",
        "typedef struct { int a; int zh[2",
        // literals beyond what the C library can represent (strtod/strtol set errno and nothing clears it)
        "double zdd = 1e-400; double zde = 1e400; int zbig = 99999999999999999999;",
        "gi0 < 99999999999999999999 || gi0 > 1e-400",
        // words that are keywords in queries only, used as ordinary names in a model
        "bool control; int strategy = 1; int simulate, inf, sup, bounds, under, sat; int deadlock;",
        "control + strategy > simulate",
    };
    return v;
}
/** the grammar entry point each block text is written for (index-aligned with block_texts) */
const std::vector<int>& block_parts()
{
    using namespace UTAP;
    static const std::vector<int> v{
        S_DECLARATION, S_DECLARATION, S_GUARD,       S_ASSIGN,      S_SYNC,        S_SELECT,      S_PARAMETERS, S_DECLARATION,
        S_GUARD,       S_INVARIANT,   S_EXPRESSION,  S_EXPRESSION,  S_EXPRESSION_LIST, S_SYSTEM,  S_SYSTEM,     S_DECLARATION,
        S_DECLARATION, S_INVARIANT,   S_PROBABILITY, S_EXPRESSION,  S_DECLARATION, S_LOCAL_DECL,  S_DECLARATION,
        S_DECLARATION, S_LOCAL_DECL,  S_DECLARATION, S_LOCAL_DECL,  S_DECLARATION, S_DECLARATION,
        S_DECLARATION, S_GUARD,
        S_DECLARATION, S_EXPRESSION,
    };
    return v;
}

namespace {

struct HOp
{
    int session{0};
    CallSpec call;
    std::string what;      // provenance of the input
    uint64_t jump_to{0};   // absolute clock target before the call (0 = none)
    int jump_family{0};    // 0 none, 1 small, 2 around 2^31, 3 wrap 2^32
};

const std::vector<std::string>& query_texts()
{
    static const std::vector<std::string> v{
        "A[] not deadlock",
        "E<> gi0 > 1",
        "A[] forall (zi : int[0,2]) gi0 > zi",
        "E<> T0.L0",
        "E<> nosuch.L0",
        "A[] true /* never closed",
        "E<> gi0 > 1\nA[] gi0 >= 0\n",
        "Pr[<=10](<> gi0 > 3) >= 0.5",
        "Pr[<=10](<> gi0 > 3)",
        "simulate [<=10] {gi0}",
        "control: A<> gi0 == 1",
        "strategy zs = control: A[] true",
        "E<> gi0 >",
        "sup: gi0",
        "inf{gi0 > 1}: gx0",
        "gi0 == 1 --> gi0 == 2",
        "",
        "// EXPECT: nothing\nA[] true",
        "/* EXPECT:T */ E<> true",
    };
    return v;
}

std::string long_comment(Rng& rng)
{
    std::string s = "/*\n";
    int n = rng.range(20, 320);
    for (int i = 0; i < n; ++i)
        s += (i % 7 == 3) ? std::string{" *\n"} : " * line " + std::to_string(i) + " of a long header comment\n";
    s += " */\n";
    return s;
}

HOp make_load(RunCtx& ctx, Rng& rng, int session)
{
    HOp op;
    op.session = session;
    CallSpec& c = op.call;
    int k = rng.below(100);
    bool xml = true;
    bool old_syntax = false;
    if (k < 30 && !corpus().empty()) {
        auto& m = corpus()[rng.below((uint32_t)corpus().size())];
        c.bytes = m.second;
        op.what = "corpus:" + m.first;
    } else if (rng.chance(0.07)) {
        // a model in the old (3.x) syntax, to be loaded with newxta == false
        Model m = gen_old_model(rng);
        old_syntax = true;
        if (rng.chance(0.5)) {
            XmlKnobs kn = draw_knobs(rng);
            c.bytes = render_xml(m, kn, rng);
            op.what = "generated-old-xml";
        } else {
            c.bytes = render_xta(m);
            op.what = "generated-old-xta";
            xml = false;
        }
    } else {
        GenCfg cfg = draw_cfg(rng);
        if (ctx.simplify & SIMP_SMALLMODEL) {
            cfg.max_templates = 1;
            cfg.max_locs = 2;
            cfg.max_edges = 2;
            cfg.max_gdecls = 3;
        }
        Model m = gen_model(rng, cfg);
        if (rng.chance(0.25))
            m.gdecls[0].text = long_comment(rng) + m.gdecls[0].text;
        if (rng.chance(0.1)) {
            // an external library: looked for relative to the working directory of the call (the simulated dlopen refuses,
            // naming the path it was asked for)
            MDecl imp;
            imp.kind = MDecl::OTHER;
            imp.name = "zext";
            imp.text = "import \"libzz.so\" { int zext(int a); };";
            m.gdecls.push_back(imp);
        }
        if (rng.chance(0.15)) {
            // a model whose meaning is wrong (duplicate names, missing system, ...): diagnostics and recovery paths
            int f = rng.below(MF_COUNT);
            if (apply_model_fault(m, f, rng))
                op.what = std::string{"model-fault:"} + model_fault_name(f) + " ";
        }
        if (k < 75) {
            XmlKnobs kn = draw_knobs(rng);
            c.bytes = render_xml(m, kn, rng);
            op.what += "generated-xml";
        } else {
            c.bytes = render_xta(m);
            op.what += "generated-xta";
            xml = false;
        }
    }
    if (rng.chance(0.4)) {
        std::string d;
        int f = rng.below(10);
        if (f < 5)
            c.bytes = xml ? apply_random_token_fault_xml(c.bytes, rng, d) : apply_random_token_fault_text(c.bytes, rng, d);
        else if (f < 8 && xml)
            c.bytes = apply_struct_fault(c.bytes, rng.below(SF_COUNT), rng, d);
        else
            c.bytes = apply_byte_fault(c.bytes, rng.chance(0.6) ? BF_TRUNCATE : (int)rng.below(BF_COUNT), rng, d);
        op.what += "+" + d;
    }
    if (xml)
        c.entry = rng.below(3);
    else
        c.entry = rng.chance(0.5) ? E_XTA_STR : E_XTA_FILE;
    int b = rng.below(100);
    c.backend = b < 70 ? B_DOC : (b < 85 ? B_BUILDER : (b < 95 ? B_PRETTY : B_TIGA));
    c.newxta = old_syntax ? false : !rng.chance(0.1);
    c.sched = ctx.draw_sched(rng, false);
    return op;
}

HOp make_followup(RunCtx& ctx, Rng& rng, int session)
{
    HOp op;
    op.session = session;
    CallSpec& c = op.call;
    if (rng.chance(0.5)) {
        static const int parts[] = {UTAP::S_DECLARATION, UTAP::S_EXPRESSION,  UTAP::S_EXPRESSION_LIST, UTAP::S_GUARD,
                                    UTAP::S_ASSIGN,      UTAP::S_INVARIANT,   UTAP::S_SYNC,            UTAP::S_PARAMETERS,
                                    UTAP::S_INST,        UTAP::S_SELECT,      UTAP::S_PROBABILITY,     UTAP::S_EXPONENTIAL_RATE,
                                    UTAP::S_SYSTEM,      UTAP::S_LOCAL_DECL};
        c.entry = E_PART;
        c.part = parts[rng.below(sizeof parts / sizeof parts[0])];
        {
            size_t ti = rng.below((uint32_t)block_texts().size());
            c.bytes = block_texts()[ti];
            if (rng.chance(0.6) && ti < block_parts().size())
                c.part = block_parts()[ti];  // mostly the entry point the text is meant for, sometimes a mismatching one
        }
        c.backend = rng.chance(0.7) ? B_BUILDER : (rng.chance(0.5) ? B_PRETTY : B_TIGA);
        c.xpath = rng.chance(0.5) ? "" : "/nta/declaration";
        c.newxta = !rng.chance(0.1);
        op.what = "block part=" + std::to_string(c.part);
    } else {
        c.bytes = rng.pick(query_texts());
        c.entry = rng.chance(0.6) ? E_PROP_STR : E_PROP_FILE;
        c.backend = rng.chance(0.85) ? B_TIGA : (rng.chance(0.5) ? B_BUILDER : B_PRETTY);
        c.xpath = c.entry == E_PROP_STR && rng.chance(0.5) ? "/nta/queries/query[1]/formula" : "";
        c.sched = ctx.draw_sched(rng, false);
        op.what = "query";
    }
    return op;
}

/** which injected faults fired in the call: '-' none, 'A' allocation failure only, 'I' I/O or sink fault only, 'B' both */
char fault_code(const CallResult& r)
{
    const bool a = r.ctx.fail_fired, i = r.ctx.io_fault_fired != IO_NONE || r.sink_fault_fired;
    return a ? (i ? 'B' : 'A') : (i ? 'I' : '-');
}

void write_blob(int fd, const std::string& s)
{
    uint32_t n = (uint32_t)s.size();
    std::string out((const char*)&n, 4);
    out += s;
    size_t off = 0;
    while (off < out.size()) {
        ssize_t w = ::write(fd, out.data() + off, out.size() - off);
        if (w <= 0) {
            if (errno == EINTR)
                continue;
            return;
        }
        off += (size_t)w;
    }
}

/** executes the session's ops alone in a pristine child; returns one record per completed op */
std::vector<std::string> reference_session(const std::vector<const HOp*>& ops, int watchdog_s)
{
    std::vector<std::string> recs;
    int p[2];
    if (pipe(p) != 0)
        return recs;
    pid_t pid = fork();
    if (pid == 0) {
        close(p[0]);
        signal(SIGALRM, SIG_DFL);
        g_on_ceiling = [] { _exit(9); };  // the in-process execution reports it; the reference just ends here
        g_on_exit_in_call = nullptr;
        Session s;
        for (auto* op : ops) {
            CallSpec c = op->call;
            c.errno_before = 0;
            alarm((unsigned)watchdog_s);
            CallResult r = run_call(s, c, 0);
            alarm(0);
            write_blob(p[1], std::string(1, fault_code(r)) + record_of(s, c, r));
        }
        _exit(0);
    }
    close(p[1]);
    std::string buf;
    char b[65536];
    for (;;) {
        ssize_t n = ::read(p[0], b, sizeof b);
        if (n > 0)
            buf.append(b, (size_t)n);
        else if (n == 0)
            break;
        else if (errno != EINTR)
            break;
    }
    close(p[0]);
    int st = 0;
    waitpid(pid, &st, 0);
    size_t off = 0;
    while (off + 4 <= buf.size()) {
        uint32_t n;
        memcpy(&n, buf.data() + off, 4);
        if (off + 4 + n > buf.size())
            break;
        recs.push_back(buf.substr(off + 4, n));
        off += 4 + n;
    }
    return recs;
}

/** true when `rec` equals `ref` except that some positions of `ref` read "?" (unknown) in `rec` */
bool equal_modulo_unknown(const std::string& ref, const std::string& rec)
{
    size_t i = 0, j = 0;
    bool any = false;
    while (i < ref.size() && j < rec.size()) {
        if (ref[i] == rec[j]) {
            ++i;
            ++j;
            continue;
        }
        if (rec[j] == '?' && j > 0 && (rec[j - 1] == '@' || rec[j - 1] == '-')) {
            // skip the position token of ref: path:line:col (no blank, ')' or '-' inside)
            // path ':' line ':' column
            size_t k = i;
            bool found = false;
            while (k < ref.size() && ref[k] != ' ' && ref[k] != ')' && ref[k] != '\n') {
                if (ref[k] == ':' && k + 1 < ref.size() && std::isdigit((unsigned char)ref[k + 1])) {
                    size_t m = k + 1;
                    while (m < ref.size() && std::isdigit((unsigned char)ref[m]))
                        ++m;
                    if (m < ref.size() && ref[m] == ':' && m + 1 < ref.size() && std::isdigit((unsigned char)ref[m + 1])) {
                        ++m;
                        while (m < ref.size() && std::isdigit((unsigned char)ref[m]))
                            ++m;
                        i = m;
                        found = true;
                        break;
                    }
                }
                ++k;
            }
            if (!found)
                return false;
            ++j;
            any = true;
            continue;
        }
        return false;
    }
    return any && i == ref.size() && j == rec.size();
}

}  // namespace

/** measures a call in a pristine child: allocations and I/O callbacks it makes when nothing is faulted */
static bool measure_call(const CallSpec& c, uint64_t& allocs, uint64_t& ios, int watchdog_s)
{
    int p[2];
    if (pipe(p) != 0)
        return false;
    pid_t pid = fork();
    if (pid == 0) {
        close(p[0]);
        signal(SIGALRM, SIG_DFL);
        g_on_ceiling = [] { _exit(9); };
        g_on_exit_in_call = nullptr;
        Session s;
        alarm((unsigned)watchdog_s);
        CallResult r = run_call(s, c, 0);
        uint64_t v[2] = {r.ctx.allocs, r.ctx.io_calls};
        (void)!::write(p[1], v, sizeof v);
        _exit(0);
    }
    close(p[1]);
    uint64_t v[2] = {0, 0};
    size_t got = 0;
    while (got < sizeof v) {
        ssize_t n = ::read(p[0], (char*)v + got, sizeof v - got);
        if (n <= 0) {
            if (n < 0 && errno == EINTR)
                continue;
            break;
        }
        got += (size_t)n;
    }
    close(p[0]);
    int st = 0;
    waitpid(pid, &st, 0);
    allocs = v[0];
    ios = v[1];
    return got == sizeof v;
}

/** Family "sweep" (fault enumeration inside one sampled scenario): one victim call is executed once per fault point -
 *  every allocation index (allocation failure) and every I/O callback index (EIO / EINTR / EOF) of that call, exhaustively
 *  up to a cap - and after each faulted execution a fixed set of probe calls by other clients must still equal their
 *  pristine-process records ("once faults stop, service is normal again", evaluated on the very next calls). */
static void profile_history_sweep(RunCtx& ctx)
{
    Rng rng{ctx.run_seed};
    // ---- plan ----
    HOp victim = make_load(ctx, rng, 0);
    if (rng.chance(0.5)) {
        // inputs that keep the lexer in a non-initial state for long stretches
        GenCfg cfg = draw_cfg(rng);
        cfg.max_templates = 2;
        Model m = gen_model(rng, cfg);
        m.gdecls[0].text = long_comment(rng) + m.gdecls[0].text;
        if (rng.chance(0.5)) {
            XmlKnobs kn = draw_knobs(rng);
            victim.call.bytes = render_xml(m, kn, rng);
            victim.call.entry = rng.below(3);
            victim.what = "generated-xml+long-comment";
        } else {
            victim.call.bytes = render_xta(m);
            victim.call.entry = rng.chance(0.5) ? E_XTA_STR : E_XTA_FILE;
            victim.what = "generated-xta+long-comment";
        }
    }
    if (rng.chance(0.15)) {
        victim = make_followup(ctx, rng, 0);
        victim.call.backend = victim.call.entry == E_PART ? B_BUILDER : B_TIGA;
    }
    victim.call.alloc_fail_at = -1;
    victim.call.ceiling = 0;
    const int nprobes = rng.range(2, 4);
    std::vector<std::vector<HOp>> probes(nprobes);
    for (int i = 0; i < nprobes; ++i) {
        probes[i].push_back(make_load(ctx, rng, i + 1));
        probes[i].back().call.alloc_fail_at = -1;
        if (rng.chance(0.6)) {
            probes[i].push_back(make_followup(ctx, rng, i + 1));
            probes[i].back().call.alloc_fail_at = -1;
        }
        for (auto& op : probes[i])
            op.call.ceiling = default_ceiling(op.call.bytes.size());
    }
    ctx.step(0, "plan");
    if (UTAP::tracker.position != 0) {
        ctx.violation("HARNESS", "not-pristine", "not-pristine", "the run process parsed something before forking its references");
        return;
    }
    // ---- references and measurement (pristine children) ----
    std::vector<std::vector<std::string>> refs(nprobes);
    for (int i = 0; i < nprobes; ++i) {
        std::vector<const HOp*> ops;
        for (auto& op : probes[i])
            ops.push_back(&op);
        refs[i] = reference_session(ops, ctx.watchdog_s);
    }
    uint64_t nalloc = 0, nio = 0;
    if (!measure_call(victim.call, nalloc, nio, ctx.watchdog_s)) {
        ctx.count("sweep-victim-not-measurable");
        return;
    }
    ctx.count("sweep-victims");
    ctx.count("sweep-victim-allocations", nalloc);
    ctx.count("sweep-victim-io-callbacks", nio);
    // ---- fault points ----
    struct FP
    {
        int kind;  // 0 alloc, else IoFault
        uint64_t at;
    };
    std::vector<FP> fps;
    const uint64_t cap_alloc = ctx.thorough ? 6000 : 250, cap_io = ctx.thorough ? 600 : 60;
    {
        double stride = nalloc > cap_alloc ? (double)nalloc / cap_alloc : 1.0;
        for (double k = 1; k <= (double)nalloc; k += stride)
            fps.push_back(FP{0, (uint64_t)k});
        if (nalloc > cap_alloc)
            ctx.count("sweep-alloc-points-sampled-not-exhaustive");
        else
            ctx.count("sweep-alloc-points-exhaustive");
        const bool stream = victim.call.entry == E_XML_FILE || victim.call.entry == E_XML_FD || victim.call.entry == E_XTA_FILE ||
                            victim.call.entry == E_PROP_FILE;
        if (stream) {
            double st2 = nio > cap_io ? (double)nio / cap_io : 1.0;
            for (double j = 1; j <= (double)nio; j += st2)
                for (int kind : {IO_EIO, IO_EINTR, IO_EOF})
                    fps.push_back(FP{kind, (uint64_t)j});
        }
    }
    ctx.sample("history sweep: victim " + victim.call.str() + " (" + victim.what + "), " + std::to_string(nalloc) + " allocations, " +
               std::to_string(nio) + " I/O callbacks, " + std::to_string(fps.size()) + " fault points, " + std::to_string(nprobes) + " probe sessions");
    ctx.event("sweep " + std::to_string(fnv1a(victim.call.bytes)) + " " + std::to_string(fps.size()));
    // ---- execution ----
    int arena = AM_MALLOC;
    if (!(ctx.simplify & SIMP_NOARENA) && rng.chance(0.3))
        arena = rng.chance(0.5) ? AM_ARENA_UP : AM_ARENA_DOWN;
    alloc_set_mode(arena);
    ctx.c06_applicable = false;
    int step = 1;
    for (auto& fp : fps) {
        const int st = step++;
        if (!ctx.keep(st))
            continue;
        CallSpec v = victim.call;
        if (fp.kind == 0)
            v.alloc_fail_at = (int64_t)fp.at;
        else {
            v.sched.fault_at = (int)fp.at;
            v.sched.fault_kind = fp.kind;
        }
        {
            Session vs;
            ctx.hint = "sweep-victim:" + victim.what;
            CallResult r = ctx.call(vs, v, st);
            if (ctx.violations)
                return;
            ctx.count(r.env_faulted() ? "sweep-fault-points-fired" : "sweep-fault-points-not-reached");
            if (r.env_faulted() && r.threw)
                ctx.count("sweep-faulted-calls-ending-in-exception");
            ctx.event(std::string{"v"} + (r.threw ? r.exc_class : "ok"));
            vs.drop();
        }
        // the probes: other clients, fault-free, right after the fault
        const int pi = (int)(rng.below((uint32_t)nprobes));
        Session ps;
        for (size_t k = 0; k < probes[pi].size(); ++k) {
            const HOp& op = probes[pi][k];
            ctx.hint = "sweep-probe:" + op.what;
            CallResult r = ctx.call(ps, op.call, st);
            if (ctx.violations)
                return;
            if (k >= refs[pi].size() || refs[pi][k][0] != '-' || r.env_faulted())
                continue;
            std::string rec = record_of(ps, op.call, r);
            ctx.count("calls-compared");
            ctx.count("sweep-probe-calls-compared");
            const std::string ref = refs[pi][k].substr(1);
            if (rec != ref) {
                std::string d = first_diff(ref, rec);
                std::string kind = first_word(d.substr(d.find('[') + 1));
                std::ostringstream det;
                det << "after " << (fp.kind == 0 ? "allocation failure" : io_fault_name(fp.kind)) << " at #" << fp.at << " of " << victim.call.str() << " ("
                    << victim.what << "), the fault-free call " << op.call.str() << " (" << op.what
                    << ") differs from the same call in a pristine process: " << d;
                if (ctx.violation("C15", "history-dependent-result",
                                  std::string{"after-fault|"} + (fp.kind == 0 ? "alloc" : io_fault_name(fp.kind)) + "|" + entry_name(victim.call.entry) + "|" +
                                      entry_name(op.call.entry) + "|" + kind,
                                  det.str()))
                    return;
            }
        }
        ps.drop();
    }
}

/** Family "clockreal": validates the stub "assign UTAP::tracker.position" against reality. The process really parses
 *  whitespace (one token per buffer, so the counter advances by the buffer length) until the position clock stands at
 *  T, then runs probe calls; a twin forked while pristine jumps to T and runs the same probes. Both must agree, or
 *  the clock jumps used everywhere else would be a stub that lies (reported as a HARNESS defect, never as a verdict). */
static void profile_history_clockreal(RunCtx& ctx)
{
    Rng rng{ctx.run_seed};
    uint64_t T;
    if (ctx.thorough && rng.chance(0.35))
        T = (1ull << 31) - 1 - rng.below(3000);  // the probes cross 2^31 (and the "unknown position" sentinel)
    else
        T = (1ull << rng.range(16, ctx.thorough ? 28 : 25)) + rng.below(1000);
    const int nprobes = rng.range(2, 4);
    std::vector<HOp> probes;
    for (int i = 0; i < nprobes; ++i) {
        probes.push_back(make_load(ctx, rng, i));
        probes.back().call.alloc_fail_at = -1;
        probes.back().call.ceiling = 0;
    }
    ctx.step(0, "plan");
    if (UTAP::tracker.position != 0) {
        ctx.violation("HARNESS", "not-pristine", "not-pristine", "the run process parsed something before forking its references");
        return;
    }
    // the jumped twin
    std::vector<std::string> twin;
    {
        int p[2];
        if (pipe(p) != 0)
            return;
        pid_t pid = fork();
        if (pid == 0) {
            close(p[0]);
            signal(SIGALRM, SIG_DFL);
            g_on_ceiling = [] { _exit(9); };
            g_on_exit_in_call = nullptr;
            UTAP::tracker.position = (uint32_t)T;
            for (auto& op : probes) {
                Session s;
                alarm((unsigned)ctx.watchdog_s);
                CallResult r = run_call(s, op.call, 0);
                alarm(0);
                write_blob(p[1], record_of(s, op.call, r));
            }
            _exit(0);
        }
        close(p[1]);
        std::string buf;
        char b[65536];
        for (;;) {
            ssize_t n = ::read(p[0], b, sizeof b);
            if (n > 0)
                buf.append(b, (size_t)n);
            else if (n == 0 || errno != EINTR)
                break;
        }
        close(p[0]);
        int st = 0;
        waitpid(pid, &st, 0);
        size_t off = 0;
        while (off + 4 <= buf.size()) {
            uint32_t n;
            memcpy(&n, buf.data() + off, 4);
            if (off + 4 + n > buf.size())
                break;
            twin.push_back(buf.substr(off + 4, n));
            off += 4 + n;
        }
    }
    // really get there: each whitespace-only block costs 1 (setPath) + its length
    int step = 1;
    const size_t chunk = 32u << 20;
    std::string ws(chunk, ' ');
    while (clock_now() < T) {
        uint64_t need = T - clock_now();
        size_t len = need > chunk + 1 ? chunk : (size_t)(need - 1);
        CallSpec c;
        c.entry = E_PART;
        c.part = UTAP::S_DECLARATION;
        c.backend = B_PRETTY;
        c.bytes = len == chunk ? ws : std::string(len, rng.chance(0.5) ? ' ' : '\t');
        Session s;
        ctx.hint = "clockreal:whitespace";
        ctx.watchdog_s = 120;
        const uint32_t before = clock_now();
        ctx.call(s, c, step, false);
        if (ctx.violations)
            return;
        ctx.count("clock-parsed-bytes", clock_now() - before);
        if (clock_now() <= before) {
            ctx.violation("HARNESS", "clock-stub", "clock-does-not-advance", "parsing whitespace did not advance the position clock");
            return;
        }
    }
    if (clock_now() != T) {
        ctx.violation("HARNESS", "clock-stub", "clock-overshoot", "real parsing reached " + std::to_string(clock_now()) + " instead of " + std::to_string(T));
        return;
    }
    ctx.count("clockreal-targets-reached-by-real-parsing");
    if (T > (1ull << 31) - 4000)
        ctx.count("clockreal-targets-at-2^31");
    ctx.sample("clockreal: reached position " + std::to_string(T) + " by really parsing whitespace, then " + std::to_string(nprobes) + " probes vs a twin that jumped there");
    ctx.c06_applicable = false;
    for (size_t i = 0; i < probes.size(); ++i) {
        Session s;
        ctx.hint = "clockreal-probe:" + probes[i].what;
        CallResult r = ctx.call(s, probes[i].call, ++step);
        if (ctx.violations)
            return;
        std::string rec = record_of(s, probes[i].call, r);
        ctx.event(std::to_string(fnv1a(rec)));
        ctx.count("clockreal-probes-compared");
        ctx.count("calls-compared");
        if (i < twin.size() && rec != twin[i]) {
            ctx.violation("HARNESS", "clock-stub", "jumped-twin-differs",
                          "at position " + std::to_string(T) + " the call " + probes[i].call.str() + " differs between real parsing and a clock jump: " + first_diff(twin[i], rec));
            return;
        }
    }
}

void profile_history(RunCtx& ctx)
{
    if (ctx.family == "clockreal") {
        profile_history_clockreal(ctx);
        return;
    }
    if (ctx.family == "sweep") {
        profile_history_sweep(ctx);
        return;
    }
    Rng rng{ctx.run_seed};
    // a fixed working directory (results may mention it) and, in some runs, a tight descriptor budget: descriptors the
    // library opens itself and leaves open use it up, as under RLIMIT_NOFILE (the reference processes inherit both)
    if (chdir("/") != 0) {
    }
    if (rng.chance(0.35)) {
        const int budget = rng.range(1, 3);
        fd_budget_set(budget);
        ctx.count("runs-with-descriptor-budget");
    }
    // ---- plan (complete before the first library call) ----
    const int nclients = rng.range(2, 4);
    const int nsessions = ctx.thorough ? rng.range(3, 15) : rng.range(2, 7);
    const bool wrap_family = rng.chance(0.04) && !(ctx.simplify & SIMP_NOJUMP);
    const bool jumps = !(ctx.simplify & SIMP_NOJUMP) && rng.chance(0.6);
    int arena = AM_MALLOC;
    if (!(ctx.simplify & SIMP_NOARENA)) {
        int a = rng.below(10);
        arena = a < 4 ? AM_POOL : (a < 5 ? AM_MALLOC : (a < 7 ? AM_ARENA_UP : (a < 9 ? AM_ARENA_DOWN : AM_PAD)));
#if SIM_ASAN
        if (arena == AM_POOL)
            arena = AM_MALLOC;
#endif
    }
    std::vector<std::vector<HOp>> sessions(nsessions);
    std::vector<int> client_of(nsessions);
    for (int s = 0; s < nsessions; ++s) {
        client_of[s] = rng.below(nclients);
        sessions[s].push_back(make_load(ctx, rng, s));
        int extra = rng.below(4);
        for (int i = 0; i < extra; ++i)
            sessions[s].push_back(make_followup(ctx, rng, s));
        if (rng.chance(0.15))
            sessions[s].push_back(make_load(ctx, rng, s));  // the client reuses the session for another document
    }
    // class C: allocation failures, I/O errors on stream sources and a failing output sink, attached to the op they hit
    for (auto& ss : sessions)
        for (auto& op : ss) {
            if (rng.chance(0.12)) {
                int mag = rng.range(0, 14);
                op.call.alloc_fail_at = 1 + (int64_t)rng.below(1u << mag);
            }
            const int e = op.call.entry;
            if ((e == E_XML_FILE || e == E_XML_FD || e == E_XTA_FILE || e == E_PROP_FILE) && rng.chance(0.08)) {
                op.call.sched.fault_at = 1 + (int)rng.below(rng.chance(0.7) ? 4 : 60);
                op.call.sched.fault_kind = 1 + (int)rng.below(3);
            }
            if (op.call.backend == B_PRETTY && rng.chance(0.3))
                op.call.sink_fail_after = rng.below(rng.chance(0.5) ? 40 : 3000);
        }
    // interleaving: random merge
    std::vector<HOp> plan;
    {
        std::vector<size_t> next(nsessions, 0);
        size_t remaining = 0;
        for (auto& ss : sessions)
            remaining += ss.size();
        // a client runs its sessions one after the other; different clients interleave freely
        while (remaining) {
            std::vector<int> ready;
            for (int s = 0; s < nsessions; ++s) {
                if (next[s] >= sessions[s].size())
                    continue;
                bool earlier_open = false;
                for (int e = 0; e < s; ++e)
                    if (client_of[e] == client_of[s] && next[e] < sessions[e].size())
                        earlier_open = true;
                if (!earlier_open)
                    ready.push_back(s);
            }
            int s = ready[rng.below((uint32_t)ready.size())];
            plan.push_back(sessions[s][next[s]++]);
            --remaining;
        }
    }
    // environment events
    uint64_t virtual_clock = 0;
    // the host application changes its working directory between calls (each call then names its directory, so that the
    // reference execution of the session sees the same one)
    const bool cwd_moves = rng.chance(0.3);
    for (auto& op : plan) {
        if (cwd_moves)
            op.call.cwd = 1 + (int)rng.below(3);
        if (!(ctx.simplify & SIMP_NOERRNO) && rng.chance(0.5)) {
            static const int errs[] = {EINTR, ENOENT, EIO, ERANGE, EAGAIN, ENOMEM, 4095};
            op.call.errno_before = errs[rng.below(7)];
        }
        op.call.ceiling = default_ceiling(op.call.bytes.size());
        if (jumps && rng.chance(0.3)) {
            int fam = rng.below(10);
            if (fam < 5) {
                op.jump_family = 1;
                virtual_clock += 1ull << rng.range(4, 24);
            } else if (virtual_clock < (1ull << 31) - 100000) {
                op.jump_family = 2;
                virtual_clock = (1ull << 31) - 50000 + rng.below(100000);
            } else {
                op.jump_family = 1;
                virtual_clock += rng.below(1u << 20);
            }
            op.jump_to = virtual_clock;
        }
        virtual_clock += op.call.bytes.size() + 2000;
    }
    if (wrap_family && !plan.empty()) {
        // place the counter so that it wraps 2^32 inside one call
        size_t at = rng.below((uint32_t)plan.size());
        plan[at].jump_family = 3;
        plan[at].jump_to = (1ull << 32) - 1 - rng.below((uint32_t)std::min<size_t>(plan[at].call.bytes.size() + 1500, 100000));
        for (size_t i = at + 1; i < plan.size(); ++i) {
            plan[i].jump_family = 0;
            plan[i].jump_to = 0;
        }
    }
    // the shrinker's mask
    std::vector<HOp> kept;
    std::vector<int> kept_step;
    for (size_t i = 0; i < plan.size(); ++i) {
        ctx.step((int)i, "plan");
        if (ctx.keep((int)i)) {
            kept.push_back(plan[i]);
            kept_step.push_back((int)i);
        }
    }
    ctx.count("sessions", nsessions);
    ctx.count("clients", nclients);
    ctx.count(std::string{"arena-mode:"} + std::to_string(arena));
    if (wrap_family)
        ctx.count("runs-in-wrap-family");
    {
        std::ostringstream sm;
        sm << "history run: " << nclients << " clients, " << nsessions << " sessions, order:";
        for (auto& op : kept)
            sm << " s" << op.session << ":" << entry_name(op.call.entry) << (op.call.alloc_fail_at > 0 ? "[allocfail]" : "")
               << (op.jump_family ? "[jump" + std::to_string(op.jump_family) + "]" : "");
        ctx.sample(sm.str());
        std::string sig;
        for (auto& op : kept)
            sig += std::to_string(client_of[op.session]) + ":" + std::to_string(op.call.entry) + ":" +
                   (op.call.alloc_fail_at > 0 ? "A" : "-") + std::to_string(op.jump_family) + ",";
        ctx.event(sig);
        ctx.interleaving_hash = fnv1a(sig) | 1;
        // reach: distinct (previous call, call, fault) triples across the batch
        int prev = -1;
        for (auto& op : kept) {
            const char* fk = op.call.alloc_fail_at > 0 ? "alloc" : (op.call.sched.fault_at ? io_fault_name(op.call.sched.fault_kind) : (op.call.sink_fail_after >= 0 ? "sink" : "-"));
            ctx.count(std::string{"triple:"} + (prev < 0 ? "start" : entry_name(prev)) + ">" + entry_name(op.call.entry) + ":" + fk);
            prev = op.call.entry;
        }
    }
    // ---- references: each session alone, in a pristine process ----
    if (UTAP::tracker.position != 0) {
        ctx.violation("HARNESS", "not-pristine", "not-pristine", "the run process parsed something before forking its references");
        return;
    }
    std::vector<std::vector<std::string>> refs(nsessions);
    for (int s = 0; s < nsessions; ++s) {
        std::vector<const HOp*> ops;
        for (auto& op : kept)
            if (op.session == s)
                ops.push_back(&op);
        if (!ops.empty())
            refs[s] = reference_session(ops, ctx.watchdog_s);
    }
    ctx.count("reference-processes", nsessions);
    // ---- the interleaved execution ----
    alloc_set_mode(arena);
    std::vector<Session> live(nsessions);
    std::vector<size_t> done(nsessions, 0);
    std::vector<int> wrap_epoch_at_load(nsessions, 0);
    std::vector<bool> fault_diverged(nsessions, false);
    int wraps = 0;
    for (size_t i = 0; i < kept.size(); ++i) {
        const HOp& op = kept[i];
        const int st = kept_step[i];
        if (op.jump_to) {
            // jump targets are absolute in the plan's virtual time; never move backwards
            uint64_t tgt = op.jump_to;
            if (op.jump_family != 3 && tgt > 0xfff00000ull)
                tgt = 0;
            if (tgt > clock_now()) {
                clock_jump(ctx, tgt);
                ctx.count("clock-jump-family:" + std::to_string(op.jump_family));
            }
        }
        Session& s = live[op.session];
        const bool load = op.call.entry <= E_XTA_FILE;
        const uint32_t before = clock_now();
        if (load)
            wrap_epoch_at_load[op.session] = wraps;
        const bool was_tainted = s.tainted && !load;
        ctx.hint = "history:" + op.what;
        ctx.c06_applicable = false;
        CallResult r = ctx.call(s, op.call, st);
        if (ctx.violations)
            return;
        const uint32_t after = clock_now();
        // a wrap is the counter running over 2^32 - not any backward move (a clock that is *reset* is a different defect)
        const bool true_wrap = after < before && (uint64_t)before + op.call.bytes.size() + 300000 >= (1ull << 32);
        if (true_wrap) {
            ++wraps;
            ctx.count("clock-wrapped-2^32-inside-call");
        } else if (after < before)
            ctx.count("clock-moved-backwards-without-wrap");
        if (before < (1u << 31) && after >= (1u << 31))
            ctx.count("clock-crossed-2^31-inside-call");
        ctx.count("clock-parsed-bytes", after >= before ? after - before : 0);
        const size_t k = done[op.session]++;
        const bool faulted = r.env_faulted();
        if (faulted)
            ctx.count("calls-env-faulted");
        std::string rec = record_of(s, op.call, r);
        ctx.event(std::to_string(fnv1a(rec)));
        if (ctx.explain)
            ctx.explain_line("  -> " + rec.substr(0, rec.find('\n', rec.find('\n') + 1)));
        if (k >= refs[op.session].size()) {
            ctx.count("calls-without-reference");
            continue;
        }
        const bool ref_faulted = refs[op.session][k][0] != '-';
        if (load)
            fault_diverged[op.session] = false;
        // (compared per kind: a call may carry an I/O fault *and* an allocation failure, and the latter may fire on one side only)
        if (refs[op.session][k][0] != fault_code(r)) {
            // the k-th allocation of a call is not the same allocation in every history (lazily initialised
            // statics allocate on first use only), so an injected failure may fire on one side only; from here
            // on the two sides hold different documents until the session loads a new one
            fault_diverged[op.session] = true;
            ctx.count("alloc-fault-fired-on-one-side-only");
        }
        if (faulted || ref_faulted || was_tainted || s.tainted || fault_diverged[op.session]) {
            ctx.count("calls-not-compared-class-C");
            continue;
        }
        ctx.count("calls-compared");
        const std::string ref = refs[op.session][k].substr(1);
        if (rec != ref) {
            const bool wrap_affected = wraps != wrap_epoch_at_load[op.session] || true_wrap;
            std::string d = first_diff(ref, rec);
            std::string kind = first_word(d.substr(d.find('[') + 1));
            std::string sig;
            // position 2^31-1 is the library's "unknown position" sentinel: a token that starts or ends exactly there
            const bool sentinel = before <= 0x7fffffffu && after >= 0x7fffffffu && equal_modulo_unknown(ref, rec);
            if (wrap_affected)
                sig = "clock-wrap-2^32-inside-call|" + (r.threw ? "exception=" + r.exc_class : "diff=" + kind);
            else if (sentinel)
                sig = "position-equals-unknown-sentinel-2^31-1";
            else
                sig = std::string{"history|"} + entry_name(op.call.entry) + "|" + kind;
            std::ostringstream det;
            det << "call " << op.call.str() << " (" << op.what << ") of session " << op.session << " differs from the same call in a pristine process: "
                << d << "; clock before=" << before << " after=" << after << " arena=" << arena;
            if (ctx.violation("C15", wrap_affected ? "clock-wrap" : (sentinel ? "position-sentinel" : "history-dependent-result"), sig, det.str()))
                return;
        }
    }
    for (auto& s : live)
        s.drop();
}

}  // namespace sim
