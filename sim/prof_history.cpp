// Profile history (C15): several logical clients run sessions (the life of one Document) whose calls are
// interleaved by the seeded scheduler, with clock jumps, errno scrambling, allocator perturbation and
// class-C faults in between. Every call must equal the same call made when its session runs alone in a
// pristine process (a child forked before this process has made a single libutap call).
#include "prof_common.h"

#include "libparser.h"

#include <cerrno>
#include <cstring>
#include <sstream>
#include <sys/wait.h>
#include <unistd.h>

namespace sim {

namespace {

struct HOp
{
    int session{0};
    CallSpec call;
    std::string what;      // provenance of the input
    uint64_t jump_to{0};   // absolute clock target before the call (0 = none)
    int jump_family{0};    // 0 none, 1 small, 2 around 2^31, 3 wrap 2^32
};

const std::vector<std::string>& block_texts()
{
    static const std::vector<std::string> v{
        "int zz1 = 3;",
        "int zz2; clock zzx; chan zzc;",
        "gi0 > 2 && gx0 < 5",
        "gi0 = 1, gi0++",
        "ch0!",
        "zs : int[0,3]",
        "int pa, clock &pb",
        "/* open comment never closed",
        "gi0 > 1 /* also open",
        "forall (zi : int[0,3]) zi >",
        "gi0 +",
        "1 + 2 * 3",
        "gi0, gx0, 7",
        "zzP = T0(); system zzP;",
        "system T0;",
        "int zf(int a) { return a + 1; }\nint zg() { return zf(2); }",
        "typedef struct { int a; } zt; zt zv;",
        "gx0 <= 5",
        "3 : 4",
        "undeclared_thing + 1",
        "",
        "   \n\n  ",
        "// only a comment",
    };
    return v;
}
const std::vector<std::string>& query_texts()
{
    static const std::vector<std::string> v{
        "A[] not deadlock",
        "E<> gi0 > 1",
        "A[] forall (zi : int[0,2]) gi0 > zi",
        "E<> T0.L0",
        "E<> nosuch.L0",
        "A[] true /* never closed",
        "E<> gi0 > 1\nA[] gi0 >= 0\n",
        "Pr[<=10](<> gi0 > 3) >= 0.5",
        "Pr[<=10](<> gi0 > 3)",
        "simulate [<=10] {gi0}",
        "control: A<> gi0 == 1",
        "strategy zs = control: A[] true",
        "E<> gi0 >",
        "sup: gi0",
        "inf{gi0 > 1}: gx0",
        "gi0 == 1 --> gi0 == 2",
        "",
        "// EXPECT: nothing\nA[] true",
        "/* EXPECT:T */ E<> true",
    };
    return v;
}

std::string long_comment(Rng& rng)
{
    std::string s = "/*\n";
    int n = rng.range(20, 320);
    for (int i = 0; i < n; ++i)
        s += " * line " + std::to_string(i) + " of a long header comment\n";
    s += " */\n";
    return s;
}

HOp make_load(RunCtx& ctx, Rng& rng, int session)
{
    HOp op;
    op.session = session;
    CallSpec& c = op.call;
    int k = rng.below(100);
    bool xml = true;
    if (k < 30 && !corpus().empty()) {
        auto& m = corpus()[rng.below((uint32_t)corpus().size())];
        c.bytes = m.second;
        op.what = "corpus:" + m.first;
    } else {
        GenCfg cfg = draw_cfg(rng);
        if (ctx.simplify & SIMP_SMALLMODEL) {
            cfg.max_templates = 1;
            cfg.max_locs = 2;
            cfg.max_edges = 2;
            cfg.max_gdecls = 3;
        }
        Model m = gen_model(rng, cfg);
        if (rng.chance(0.25))
            m.gdecls[0].text = long_comment(rng) + m.gdecls[0].text;
        if (k < 75) {
            XmlKnobs kn = draw_knobs(rng);
            c.bytes = render_xml(m, kn, rng);
            op.what = "generated-xml";
        } else {
            c.bytes = render_xta(m);
            op.what = "generated-xta";
            xml = false;
        }
    }
    if (rng.chance(0.4)) {
        std::string d;
        int f = rng.below(10);
        if (f < 5)
            c.bytes = xml ? apply_random_token_fault_xml(c.bytes, rng, d) : apply_random_token_fault_text(c.bytes, rng, d);
        else if (f < 8 && xml)
            c.bytes = apply_struct_fault(c.bytes, rng.below(SF_COUNT), rng, d);
        else
            c.bytes = apply_byte_fault(c.bytes, rng.chance(0.6) ? BF_TRUNCATE : (int)rng.below(BF_COUNT), rng, d);
        op.what += "+" + d;
    }
    if (xml)
        c.entry = rng.below(3);
    else
        c.entry = rng.chance(0.5) ? E_XTA_STR : E_XTA_FILE;
    int b = rng.below(100);
    c.backend = b < 70 ? B_DOC : (b < 85 ? B_BUILDER : (b < 95 ? B_PRETTY : B_TIGA));
    c.newxta = !rng.chance(0.1);
    c.sched = ctx.draw_sched(rng, false);
    return op;
}

HOp make_followup(RunCtx& ctx, Rng& rng, int session)
{
    HOp op;
    op.session = session;
    CallSpec& c = op.call;
    if (rng.chance(0.5)) {
        static const int parts[] = {UTAP::S_DECLARATION, UTAP::S_EXPRESSION,  UTAP::S_EXPRESSION_LIST, UTAP::S_GUARD,
                                    UTAP::S_ASSIGN,      UTAP::S_INVARIANT,   UTAP::S_SYNC,            UTAP::S_PARAMETERS,
                                    UTAP::S_INST,        UTAP::S_SELECT,      UTAP::S_PROBABILITY,     UTAP::S_EXPONENTIAL_RATE,
                                    UTAP::S_SYSTEM,      UTAP::S_LOCAL_DECL};
        c.entry = E_PART;
        c.part = parts[rng.below(sizeof parts / sizeof parts[0])];
        c.bytes = rng.pick(block_texts());
        c.backend = rng.chance(0.7) ? B_BUILDER : (rng.chance(0.5) ? B_PRETTY : B_TIGA);
        c.xpath = rng.chance(0.5) ? "" : "/nta/declaration";
        c.newxta = !rng.chance(0.1);
        op.what = "block part=" + std::to_string(c.part);
    } else {
        c.bytes = rng.pick(query_texts());
        c.entry = rng.chance(0.6) ? E_PROP_STR : E_PROP_FILE;
        c.backend = rng.chance(0.85) ? B_TIGA : (rng.chance(0.5) ? B_BUILDER : B_PRETTY);
        c.xpath = c.entry == E_PROP_STR && rng.chance(0.5) ? "/nta/queries/query[1]/formula" : "";
        c.sched = ctx.draw_sched(rng, false);
        op.what = "query";
    }
    return op;
}

void write_blob(int fd, const std::string& s)
{
    uint32_t n = (uint32_t)s.size();
    std::string out((const char*)&n, 4);
    out += s;
    size_t off = 0;
    while (off < out.size()) {
        ssize_t w = ::write(fd, out.data() + off, out.size() - off);
        if (w <= 0) {
            if (errno == EINTR)
                continue;
            return;
        }
        off += (size_t)w;
    }
}

/** executes the session's ops alone in a pristine child; returns one record per completed op */
std::vector<std::string> reference_session(const std::vector<const HOp*>& ops, int watchdog_s)
{
    std::vector<std::string> recs;
    int p[2];
    if (pipe(p) != 0)
        return recs;
    pid_t pid = fork();
    if (pid == 0) {
        close(p[0]);
        signal(SIGALRM, SIG_DFL);
        g_on_ceiling = [] { _exit(9); };  // the in-process execution reports it; the reference just ends here
        g_on_exit_in_call = nullptr;
        Session s;
        for (auto* op : ops) {
            CallSpec c = op->call;
            c.errno_before = 0;
            alarm((unsigned)watchdog_s);
            CallResult r = run_call(s, c, 0);
            alarm(0);
            write_blob(p[1], std::string{r.env_faulted() ? "F" : "-"} + record_of(s, c, r));
        }
        _exit(0);
    }
    close(p[1]);
    std::string buf;
    char b[65536];
    for (;;) {
        ssize_t n = ::read(p[0], b, sizeof b);
        if (n > 0)
            buf.append(b, (size_t)n);
        else if (n == 0)
            break;
        else if (errno != EINTR)
            break;
    }
    close(p[0]);
    int st = 0;
    waitpid(pid, &st, 0);
    size_t off = 0;
    while (off + 4 <= buf.size()) {
        uint32_t n;
        memcpy(&n, buf.data() + off, 4);
        if (off + 4 + n > buf.size())
            break;
        recs.push_back(buf.substr(off + 4, n));
        off += 4 + n;
    }
    return recs;
}

/** true when `rec` equals `ref` except that some positions of `ref` read "?" (unknown) in `rec` */
bool equal_modulo_unknown(const std::string& ref, const std::string& rec)
{
    size_t i = 0, j = 0;
    bool any = false;
    while (i < ref.size() && j < rec.size()) {
        if (ref[i] == rec[j]) {
            ++i;
            ++j;
            continue;
        }
        if (rec[j] == '?' && j > 0 && (rec[j - 1] == '@' || rec[j - 1] == '-')) {
            // skip the position token of ref: path:line:col (no blank, ')' or '-' inside)
            // path ':' line ':' column
            size_t k = i;
            bool found = false;
            while (k < ref.size() && ref[k] != ' ' && ref[k] != ')' && ref[k] != '\n') {
                if (ref[k] == ':' && k + 1 < ref.size() && std::isdigit((unsigned char)ref[k + 1])) {
                    size_t m = k + 1;
                    while (m < ref.size() && std::isdigit((unsigned char)ref[m]))
                        ++m;
                    if (m < ref.size() && ref[m] == ':' && m + 1 < ref.size() && std::isdigit((unsigned char)ref[m + 1])) {
                        ++m;
                        while (m < ref.size() && std::isdigit((unsigned char)ref[m]))
                            ++m;
                        i = m;
                        found = true;
                        break;
                    }
                }
                ++k;
            }
            if (!found)
                return false;
            ++j;
            any = true;
            continue;
        }
        return false;
    }
    return any && i == ref.size() && j == rec.size();
}

}  // namespace

void profile_history(RunCtx& ctx)
{
    Rng rng{ctx.run_seed};
    // ---- plan (complete before the first library call) ----
    const int nclients = rng.range(2, 4);
    const int nsessions = ctx.thorough ? rng.range(3, 15) : rng.range(2, 7);
    const bool wrap_family = rng.chance(0.04) && !(ctx.simplify & SIMP_NOJUMP);
    const bool jumps = !(ctx.simplify & SIMP_NOJUMP) && rng.chance(0.6);
    int arena = AM_MALLOC;
    if (!(ctx.simplify & SIMP_NOARENA)) {
        int a = rng.below(10);
        arena = a < 5 ? AM_MALLOC : (a < 7 ? AM_ARENA_UP : (a < 9 ? AM_ARENA_DOWN : AM_PAD));
    }
    std::vector<std::vector<HOp>> sessions(nsessions);
    std::vector<int> client_of(nsessions);
    for (int s = 0; s < nsessions; ++s) {
        client_of[s] = rng.below(nclients);
        sessions[s].push_back(make_load(ctx, rng, s));
        int extra = rng.below(4);
        for (int i = 0; i < extra; ++i)
            sessions[s].push_back(make_followup(ctx, rng, s));
        if (rng.chance(0.15))
            sessions[s].push_back(make_load(ctx, rng, s));  // the client reuses the session for another document
    }
    // class C: allocation failures attached to the op they hit
    for (auto& ss : sessions)
        for (auto& op : ss)
            if (rng.chance(0.12)) {
                int mag = rng.range(0, 14);
                op.call.alloc_fail_at = 1 + (int64_t)rng.below(1u << mag);
            }
    // interleaving: random merge
    std::vector<HOp> plan;
    {
        std::vector<size_t> next(nsessions, 0);
        size_t remaining = 0;
        for (auto& ss : sessions)
            remaining += ss.size();
        // a client runs its sessions one after the other; different clients interleave freely
        while (remaining) {
            std::vector<int> ready;
            for (int s = 0; s < nsessions; ++s) {
                if (next[s] >= sessions[s].size())
                    continue;
                bool earlier_open = false;
                for (int e = 0; e < s; ++e)
                    if (client_of[e] == client_of[s] && next[e] < sessions[e].size())
                        earlier_open = true;
                if (!earlier_open)
                    ready.push_back(s);
            }
            int s = ready[rng.below((uint32_t)ready.size())];
            plan.push_back(sessions[s][next[s]++]);
            --remaining;
        }
    }
    // environment events
    uint64_t virtual_clock = 0;
    for (auto& op : plan) {
        if (!(ctx.simplify & SIMP_NOERRNO) && rng.chance(0.5)) {
            static const int errs[] = {EINTR, ENOENT, EIO, ERANGE, EAGAIN, ENOMEM, 4095};
            op.call.errno_before = errs[rng.below(7)];
        }
        op.call.ceiling = default_ceiling(op.call.bytes.size());
        if (jumps && rng.chance(0.3)) {
            int fam = rng.below(10);
            if (fam < 5) {
                op.jump_family = 1;
                virtual_clock += 1ull << rng.range(4, 24);
            } else if (virtual_clock < (1ull << 31) - 100000) {
                op.jump_family = 2;
                virtual_clock = (1ull << 31) - 50000 + rng.below(100000);
            } else {
                op.jump_family = 1;
                virtual_clock += rng.below(1u << 20);
            }
            op.jump_to = virtual_clock;
        }
        virtual_clock += op.call.bytes.size() + 2000;
    }
    if (wrap_family && !plan.empty()) {
        // place the counter so that it wraps 2^32 inside one call
        size_t at = rng.below((uint32_t)plan.size());
        plan[at].jump_family = 3;
        plan[at].jump_to = (1ull << 32) - 1 - rng.below((uint32_t)std::min<size_t>(plan[at].call.bytes.size() + 1500, 100000));
        for (size_t i = at + 1; i < plan.size(); ++i) {
            plan[i].jump_family = 0;
            plan[i].jump_to = 0;
        }
    }
    // the shrinker's mask
    std::vector<HOp> kept;
    std::vector<int> kept_step;
    for (size_t i = 0; i < plan.size(); ++i) {
        ctx.step((int)i, "plan");
        if (ctx.keep((int)i)) {
            kept.push_back(plan[i]);
            kept_step.push_back((int)i);
        }
    }
    ctx.count("sessions", nsessions);
    ctx.count("clients", nclients);
    ctx.count(std::string{"arena-mode:"} + std::to_string(arena));
    if (wrap_family)
        ctx.count("runs-in-wrap-family");
    {
        std::ostringstream sm;
        sm << "history run: " << nclients << " clients, " << nsessions << " sessions, order:";
        for (auto& op : kept)
            sm << " s" << op.session << ":" << entry_name(op.call.entry) << (op.call.alloc_fail_at > 0 ? "[allocfail]" : "")
               << (op.jump_family ? "[jump" + std::to_string(op.jump_family) + "]" : "");
        ctx.sample(sm.str());
        std::string sig;
        for (auto& op : kept)
            sig += std::to_string(client_of[op.session]) + ":" + std::to_string(op.call.entry) + ":" +
                   (op.call.alloc_fail_at > 0 ? "A" : "-") + std::to_string(op.jump_family) + ",";
        ctx.event(sig);
    }
    // ---- references: each session alone, in a pristine process ----
    if (UTAP::tracker.position != 0) {
        ctx.violation("HARNESS", "not-pristine", "not-pristine", "the run process parsed something before forking its references");
        return;
    }
    std::vector<std::vector<std::string>> refs(nsessions);
    for (int s = 0; s < nsessions; ++s) {
        std::vector<const HOp*> ops;
        for (auto& op : kept)
            if (op.session == s)
                ops.push_back(&op);
        if (!ops.empty())
            refs[s] = reference_session(ops, ctx.watchdog_s);
    }
    ctx.count("reference-processes", nsessions);
    // ---- the interleaved execution ----
    alloc_set_mode(arena);
    std::vector<Session> live(nsessions);
    std::vector<size_t> done(nsessions, 0);
    std::vector<int> wrap_epoch_at_load(nsessions, 0);
    std::vector<bool> fault_diverged(nsessions, false);
    int wraps = 0;
    for (size_t i = 0; i < kept.size(); ++i) {
        const HOp& op = kept[i];
        const int st = kept_step[i];
        if (op.jump_to) {
            // jump targets are absolute in the plan's virtual time; never move backwards
            uint64_t tgt = op.jump_to;
            if (op.jump_family != 3 && tgt > 0xfff00000ull)
                tgt = 0;
            if (tgt > clock_now()) {
                clock_jump(ctx, tgt);
                ctx.count("clock-jump-family:" + std::to_string(op.jump_family));
            }
        }
        Session& s = live[op.session];
        const bool load = op.call.entry <= E_XTA_FILE;
        const uint32_t before = clock_now();
        if (load)
            wrap_epoch_at_load[op.session] = wraps;
        const bool was_tainted = s.tainted && !load;
        ctx.hint = "history:" + op.what;
        ctx.c06_applicable = false;
        CallResult r = ctx.call(s, op.call, st);
        if (ctx.violations)
            return;
        const uint32_t after = clock_now();
        if (after < before) {
            ++wraps;
            ctx.count("clock-wrapped-2^32-inside-call");
        }
        if (before < (1u << 31) && after >= (1u << 31))
            ctx.count("clock-crossed-2^31-inside-call");
        ctx.count("clock-parsed-bytes", after >= before ? after - before : 0);
        const size_t k = done[op.session]++;
        const bool faulted = r.env_faulted();
        if (faulted)
            ctx.count("calls-env-faulted");
        std::string rec = record_of(s, op.call, r);
        ctx.event(std::to_string(fnv1a(rec)));
        if (ctx.explain)
            ctx.explain_line("  -> " + rec.substr(0, rec.find('\n', rec.find('\n') + 1)));
        if (k >= refs[op.session].size()) {
            ctx.count("calls-without-reference");
            continue;
        }
        const bool ref_faulted = refs[op.session][k][0] == 'F';
        if (load)
            fault_diverged[op.session] = false;
        if (ref_faulted != faulted) {
            // the k-th allocation of a call is not the same allocation in every history (lazily initialised
            // statics allocate on first use only), so an injected failure may fire on one side only; from here
            // on the two sides hold different documents until the session loads a new one
            fault_diverged[op.session] = true;
            ctx.count("alloc-fault-fired-on-one-side-only");
        }
        if (faulted || ref_faulted || was_tainted || s.tainted || fault_diverged[op.session]) {
            ctx.count("calls-not-compared-class-C");
            continue;
        }
        ctx.count("calls-compared");
        const std::string ref = refs[op.session][k].substr(1);
        if (rec != ref) {
            const bool wrap_affected = wraps != wrap_epoch_at_load[op.session] || after < before;
            std::string d = first_diff(ref, rec);
            std::string kind = first_word(d.substr(d.find('[') + 1));
            std::string sig;
            // position 2^31-1 is the library's "unknown position" sentinel: a token that starts or ends exactly there
            const bool sentinel = before <= 0x7fffffffu && after >= 0x7fffffffu && equal_modulo_unknown(ref, rec);
            if (wrap_affected)
                sig = "clock-wrap-2^32-inside-call|" + (r.threw ? "exception=" + r.exc_class : "diff=" + kind);
            else if (sentinel)
                sig = "position-equals-unknown-sentinel-2^31-1";
            else
                sig = std::string{"history|"} + entry_name(op.call.entry) + "|" + kind;
            std::ostringstream det;
            det << "call " << op.call.str() << " (" << op.what << ") of session " << op.session << " differs from the same call in a pristine process: "
                << d << "; clock before=" << before << " after=" << after << " arena=" << arena;
            if (ctx.violation("C15", wrap_affected ? "clock-wrap" : (sentinel ? "position-sentinel" : "history-dependent-result"), sig, det.str()))
                return;
        }
    }
    for (auto& s : live)
        s.drop();
}

}  // namespace sim
