// One PRNG decides everything: xoshiro256** seeded through splitmix64.
// Never draw from it in logging paths.
#pragma once
#include <cstdint>
#include <string>
#include <vector>

namespace sim {

inline uint64_t splitmix64(uint64_t& x)
{
    uint64_t z = (x += 0x9e3779b97f4a7c15ULL);
    z = (z ^ (z >> 30)) * 0xbf58476d1ce4e5b9ULL;
    z = (z ^ (z >> 27)) * 0x94d049bb133111ebULL;
    return z ^ (z >> 31);
}

inline uint64_t mix(uint64_t a, uint64_t b)
{
    uint64_t x = a ^ (b * 0x9e3779b97f4a7c15ULL + 0x7f4a7c15ULL);
    splitmix64(x);
    return splitmix64(x);
}

struct Rng
{
    uint64_t s[4];
    explicit Rng(uint64_t seed)
    {
        uint64_t x = seed;
        for (auto& v : s)
            v = splitmix64(x);
    }
    static uint64_t rotl(uint64_t x, int k) { return (x << k) | (x >> (64 - k)); }
    uint64_t next()
    {
        const uint64_t result = rotl(s[1] * 5, 7) * 9;
        const uint64_t t = s[1] << 17;
        s[2] ^= s[0];
        s[3] ^= s[1];
        s[1] ^= s[2];
        s[0] ^= s[3];
        s[2] ^= t;
        s[3] = rotl(s[3], 45);
        return result;
    }
    /** uniform in [0,n) ; n==0 -> 0 */
    uint32_t below(uint32_t n) { return n == 0 ? 0 : (uint32_t)(next() % n); }
    /** uniform in [lo,hi] */
    int range(int lo, int hi) { return hi <= lo ? lo : lo + (int)below((uint32_t)(hi - lo + 1)); }
    bool chance(double p) { return (next() >> 11) * (1.0 / 9007199254740992.0) < p; }
    template <class T>
    const T& pick(const std::vector<T>& v)
    {
        return v[below((uint32_t)v.size())];
    }
    Rng fork() { return Rng{next()}; }
};

inline uint64_t fnv1a(const void* p, size_t n, uint64_t h = 1469598103934665603ULL)
{
    auto* b = (const unsigned char*)p;
    for (size_t i = 0; i < n; ++i) {
        h ^= b[i];
        h *= 1099511628211ULL;
    }
    return h;
}
inline uint64_t fnv1a(const std::string& s, uint64_t h = 1469598103934665603ULL) { return fnv1a(s.data(), s.size(), h); }

}  // namespace sim
