#include "exec.h"

#include "utap/DocumentBuilder.hpp"
#include "utap/prettyprinter.h"
#include "utap/typechecker.h"

#include "libparser.h"

#include <unistd.h>
#include <algorithm>
#include <cerrno>
#include <cxxabi.h>
#include <sstream>

using namespace UTAP;

namespace sim {

const char* entry_name(int e)
{
    static const char* n[] = {"parse_XML_buffer", "parse_XML_file", "parse_XML_fd", "parse_XTA(str)", "parse_XTA(FILE)",
                              "parse_XTA(part)",  "parseProperty(str)", "parseProperty(FILE)", "write_XML_file"};
    return e >= 0 && e < E_COUNT ? n[e] : "?";
}
const char* backend_name(int b)
{
    static const char* n[] = {"Document", "DocumentBuilder", "PrettyPrinter", "TigaPropertyBuilder"};
    return b >= 0 && b < B_COUNT ? n[b] : "?";
}

std::string CallSpec::str() const
{
    std::ostringstream os;
    os << entry_name(entry) << "/" << backend_name(backend) << (newxta ? "/new" : "/old");
    if (entry == E_PART)
        os << "/part" << part;
    os << " bytes=" << bytes.size() << " sched=[" << sched.str() << "]";
    if (alloc_fail_at > 0)
        os << " allocfail@" << alloc_fail_at;
    if (sink_fail_after >= 0)
        os << " sinkfail@" << sink_fail_after;
    if (errno_before)
        os << " errno=" << errno_before;
    if (cwd)
        os << " cwd#" << cwd;
    return os.str();
}

uint64_t default_ceiling(size_t n)
{
    // worst ratio measured on the pinned tree: see DESIGN.md 3.8; generous factor 50 on top
    return 3000000ull + 4000ull * (uint64_t)n;
}

static std::string demangle(const char* n)
{
    int st = 0;
    char* d = abi::__cxa_demangle(n, nullptr, nullptr, &st);
    std::string r = (st == 0 && d) ? d : n;
    std::free(d);
    return r;
}

static std::string props_dump(Document& doc, TigaPropertyBuilder& b)
{
    TraversalScope traversal_scope;
    std::ostringstream os;
    DumpOpts o;
    for (auto& p : b.getProperties()) {
        os << "\nprop line=" << p.line << " no=" << p.no << " type=" << (int)p.type << " rt=" << (int)p.result_type
           << " decl=" << p.declaration << " subj=" << p.subjections.size() << " imit=" << (p.imitation != nullptr)
           << " expect=" << (p.expect != nullptr) << " opts=" << p.options.size() << " ";
        os << dump_expr(doc, p.intermediate, o, true);
    }
    return os.str();
}

namespace {
struct Out
{
    std::string props;
};
/** the PrettyPrinter's sink: an in-memory stream whose buffer refuses to grow beyond a planned number of bytes */
struct FailingBuf : std::stringbuf
{
    int64_t limit{-1};
    int64_t taken{0};
    bool fired{false};
    int_type overflow(int_type c) override
    {
        if (limit >= 0 && taken >= limit) {
            fired = true;
            return traits_type::eof();
        }
        ++taken;
        return std::stringbuf::overflow(c);
    }
    std::streamsize xsputn(const char* s, std::streamsize n) override
    {
        if (limit >= 0 && taken + n > limit) {
            std::streamsize ok = std::max<int64_t>(0, limit - taken);
            std::stringbuf::xsputn(s, ok);
            taken += ok;
            fired = true;
            return ok;
        }
        taken += n;
        return std::stringbuf::xsputn(s, n);
    }
};
}  // namespace

static void do_call(Session& s, const CallSpec& c, CallResult& r, std::string& props)
{
    const bool load = c.entry <= E_XTA_FILE;
    if (load) {
        s.drop();
        s.doc = std::make_unique<Document>();
        s.has_load = true;
        s.load_xml = c.is_xml();
        s.delivered = c.bytes;
        s.tainted = false;
        s.load_threw = false;
    } else {
        if (s.tainted) {
            // a document hit by an injected allocation failure is dropped by its client, never used again
            s.drop();
            s.tainted = false;
            s.has_load = false;
        }
        if (!s.doc)
            s.doc = std::make_unique<Document>();
    }
    Document* doc = s.doc.get();
    FailingBuf pretty_buf;
    pretty_buf.limit = c.backend == B_PRETTY ? c.sink_fail_after : -1;
    std::ostream pretty{&pretty_buf};
    if (pretty_buf.limit >= 0)
        pretty.exceptions(std::ios::badbit | std::ios::failbit);  // a client that wants to hear about a full disk
    std::unique_ptr<ParserBuilder> builder;
    TigaPropertyBuilder* tiga = nullptr;
    auto make_builder = [&]() -> ParserBuilder* {
        switch (c.backend) {
        case B_PRETTY: builder = std::make_unique<PrettyPrinter>(pretty); break;
        case B_TIGA: {
            auto t = std::make_unique<TigaPropertyBuilder>(*doc);
            tiga = t.get();
            builder = std::move(t);
            break;
        }
        default: builder = std::make_unique<DocumentBuilder>(*doc); break;
        }
        return builder.get();
    };
    int fd = -1;
    FILE* f = nullptr;
    // everything the harness needs is prepared before begin_call so that the seam counts library work only
    std::string uri;
    if (c.entry == E_XML_FILE) {
        sim_in_publish(c.bytes);
        set_next_file_sched(c.sched);
        uri = sim_in_path();
    } else if (c.entry == E_XML_FD) {
        fd = open_sim_fd(c.bytes, c.sched);
    } else if (c.entry == E_XTA_FILE || c.entry == E_PROP_FILE) {
        f = open_sim_FILE(c.bytes, c.sched);
    } else if (c.entry == E_WRITE) {
        set_next_write_sched(c.sched);
        if (!c.bytes.empty() && c.bytes[0] == '/')
            uri = c.bytes;  // family realfile: a real path (libxml2's own file output, no seam)
        else {
            uri = "sim://" + c.bytes;
            sink_reset(c.bytes);
        }
    }
    // the working directory is part of the call's environment from the moment the client creates its builder
    if (c.cwd) {
        static const char* dirs[] = {"", "/", "/usr", "/var"};
        if (chdir(dirs[c.cwd & 3]) != 0) {
        }
    }
    ParserBuilder* pb = (c.backend == B_DOC && load) || c.entry == E_WRITE ? nullptr : make_builder();
    errno = c.errno_before;
    begin_call(0, c.alloc_fail_at, c.ceiling);
    try {
        switch (c.entry) {
        case E_XML_BUFFER:
            r.ret = pb ? parse_XML_buffer(c.bytes.c_str(), pb, c.newxta) : parse_XML_buffer(c.bytes.c_str(), doc, c.newxta);
            break;
        case E_XML_FILE:
            r.ret = pb ? parse_XML_file(uri.c_str(), pb, c.newxta) : parse_XML_file(uri.c_str(), doc, c.newxta);
            break;
        case E_XML_FD: r.ret = pb ? parse_XML_fd(fd, pb, c.newxta) : parse_XML_fd(fd, doc, c.newxta); break;
        case E_XTA_STR:
            r.ret = pb ? parse_XTA(c.bytes.c_str(), pb, c.newxta) : (long)parse_XTA(c.bytes.c_str(), doc, c.newxta);
            break;
        case E_XTA_FILE: r.ret = pb ? parse_XTA(f, pb, c.newxta) : (long)parse_XTA(f, doc, c.newxta); break;
        case E_PART: r.ret = parse_XTA(c.bytes.c_str(), pb, c.newxta, (xta_part_t)c.part, c.xpath); break;
        case E_PROP_STR: r.ret = parseProperty(c.bytes.c_str(), pb, c.xpath); break;
        case E_PROP_FILE: r.ret = parseProperty(f, pb); break;
        case E_WRITE: r.ret = write_XML_file(uri.c_str(), doc); break;
        }
    } catch (const std::exception& e) {
        end_call();
        r.threw = true;
        r.exc_class = demangle(typeid(e).name());
        r.exc_what = e.what();
    } catch (...) {
        end_call();
        r.threw = true;
        r.nonstd = true;
        r.exc_class = "<non-std exception>";
    }
    end_call();
    r.ctx = g_op;
    if (c.entry == E_XML_FILE)
        sim_in_retire();
    if (fd >= 0)
        close_sim_fd(fd);
    if (f)
        fclose(f);
    if (r.ctx.fail_fired)
        s.tainted = true;
    if (load)
        s.load_threw = r.threw;
    r.pretty_out = pretty_buf.str();
    r.sink_fault_fired = pretty_buf.fired;
    if (tiga && !r.threw) {
        try {
            props = props_dump(*doc, *tiga);
        } catch (const std::exception& e) {
            props = std::string{"\nprops: <exception "} + e.what() + ">";
        }
    }
    // builders are destroyed here, before the record is taken (their stacks are not part of any result)
}

static thread_local std::string g_last_props;

CallResult run_call(Session& s, const CallSpec& c, int op_index)
{
    CallResult r;
    std::string props;
    do_call(s, c, r, props);
    g_last_props = props;
    (void)op_index;
    return r;
}

std::string record_of(Session& s, const CallSpec& c, const CallResult& r, const DumpOpts& o)
{
    std::ostringstream os;
    os << "call " << entry_name(c.entry) << "/" << backend_name(c.backend) << "\n";
    if (r.threw)
        os << "threw " << r.exc_class << "\n";
    else
        os << "ret " << r.ret << "\n";
    if (c.backend == B_PRETTY)
        os << "pretty[" << r.pretty_out << "]\n";
    if (c.backend == B_TIGA)
        os << "props:" << g_last_props << "\n";
    if (s.doc && !s.tainted) {
        try {
            os << dump_document(*s.doc, o);
        } catch (const std::exception& e) {
            os << "<dump threw " << e.what() << ">";
        }
    } else if (s.tainted)
        os << "<tainted>";
    return os.str();
}

}  // namespace sim
