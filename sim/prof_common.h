// helpers shared by the profiles
#pragma once
#include "runner.h"

namespace sim {

/** a load of some unrelated model by another client (history / interleaving dimension of every profile) */
CallSpec noise_call(RunCtx& ctx, Rng& rng, std::string& what);

/** first line that differs between two texts: "line N: <a> | <b>" */
std::string first_diff(const std::string& a, const std::string& b);
std::string first_word(const std::string& line);

/** clock jump: sets UTAP::tracker.position forward (never backward, never across 2^32 unless `allow_wrap`) */
void clock_jump(RunCtx& ctx, uint64_t target);
uint32_t clock_now();

/** texts for per-block parses, among them ones that abandon productions which keep process-global parser state; and
 *  the grammar entry point each is written for (index-aligned) */
const std::vector<std::string>& block_texts();
const std::vector<int>& block_parts();

Model small_or_drawn_model(RunCtx& ctx, Rng& rng, GenCfg& cfg, bool allow_dynamic = true, bool allow_old_syntax = false);

}  // namespace sim
