// utapsim: deterministic simulator for libutap. See DESIGN.md section 3.
#include "runner.h"
#include "seams.h"

#include <cstdio>
#include <cstdlib>
#include <cstring>
#include <string>
#include <sys/personality.h>
#include <unistd.h>

extern "C" __attribute__((used)) const char* __asan_default_options()
{
    return "exitcode=77:detect_leaks=0:abort_on_error=0:allocator_may_return_null=1:handle_abort=1:detect_stack_use_after_return=0";
}
extern "C" __attribute__((used)) const char* __ubsan_default_options() { return "print_stacktrace=1:halt_on_error=1:exitcode=77"; }

int main(int argc, char** argv)
{
    // same addresses in every execution: pointer-ordered containers must iterate identically in a replay
    if (!getenv("UTAPSIM_NO_REEXEC")) {
        int pers = personality(0xffffffff);
        if (pers != -1 && !(pers & ADDR_NO_RANDOMIZE)) {
            if (personality(pers | ADDR_NO_RANDOMIZE) != -1) {
                setenv("UTAPSIM_NO_REEXEC", "1", 1);
                execv("/proc/self/exe", argv);
            }
        }
    }
    // simulated files have real paths under a private directory (see seams.h); the orchestrator owns it
    sim::sim_dir_create();
    const pid_t owner = getpid();
    static pid_t s_owner;
    s_owner = owner;
    atexit([] {
        if (getpid() == s_owner)
            sim::sim_dir_remove();
    });
    int rc = sim::runner_main(argc, argv);
    return rc;
}
