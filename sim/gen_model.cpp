// Abstract model generator. Every label and (where the syntax allows it) every declaration carries a
// unique integer tag >= 100731 so that an expression found in the built document is attributable to
// exactly one source block.
#include "gen.h"

#include <algorithm>
#include <sstream>

namespace sim {

bool Model::has_branchpoints() const
{
    for (auto& t : templs)
        if (!t.bps.empty())
            return true;
    return false;
}
bool Model::has_free_process_params() const
{
    for (auto& s : system) {
        for (auto& i : insts)
            if (i.name == s && !i.free_params.empty())
                return true;
        for (auto& t : templs)
            if (t.name == s && !t.params.empty())
                return true;
    }
    return false;
}

GenCfg draw_cfg(Rng& rng)
{
    GenCfg c;
    c.max_templates = rng.range(1, 4);
    c.max_locs = rng.range(1, 6);
    c.max_edges = rng.range(0, 9);
    c.max_gdecls = rng.range(2, 14);
    c.p_label = 0.25 + 0.15 * rng.below(5);
    c.branchpoints = rng.chance(0.5);
    c.partial_inst = rng.chance(0.5);
    c.free_process_params = rng.chance(0.35);
    c.priorities = rng.chance(0.3);
    c.queries = rng.chance(0.5);
    c.functions = rng.chance(0.7);
    c.quantifiers = rng.chance(0.6);
    c.shadowing = rng.chance(0.7);
    c.multiline = rng.chance(0.5);
    c.anonymous_locs = rng.chance(0.5);
    c.depth = rng.range(1, 3);
    c.dynamic_templates = rng.chance(0.12);
    if (rng.chance(0.08)) {
        // now and then a large model: the k-th template, the n-th location, many edges on one location
        c.max_templates = rng.range(4, 8);
        c.max_locs = rng.range(6, 14);
        c.max_edges = rng.range(10, 26);
        c.max_gdecls = rng.range(10, 30);
    }
    return c;
}

namespace {

struct Scope
{
    std::vector<std::string> ints;    // assignable int lvalues
    std::vector<std::string> rints;   // readable int-valued names (consts, binders, bounded params)
    std::vector<std::string> clocks;
    std::vector<std::string> bools;
    std::vector<std::string> chans;   // plain binary channels
    std::vector<std::string> bchans;  // broadcast
    std::vector<std::string> uchans;  // urgent
    std::vector<std::string> chanarrs;
    std::vector<std::string> arrays;  // int[4]
    std::vector<std::string> ifuncs;  // int f(int,int)
    std::vector<std::string> vfuncs;  // void f(int&)
    std::vector<std::string> bfuncs;  // bool f()
    std::vector<std::string> structs; // variables with fields a,b
    std::vector<std::string> int_typedefs;
    std::vector<int> int_typedef_tags;
    bool has_idx_t{false};  // "typedef int[0,3] idx_t;" is declared: quantifiers may range over the name
};

struct G
{
    Rng& rng;
    const GenCfg& cfg;
    int next_tag{100731};
    int uniq{0};
    G(Rng& r, const GenCfg& c): rng{r}, cfg{c} {}
    int tag() { return next_tag++; }

    struct E
    {
        std::string s;
        std::vector<int> tags;
    };
    static void join(E& a, const E& b) { a.tags.insert(a.tags.end(), b.tags.begin(), b.tags.end()); }

    E lit()
    {
        int t = tag();
        return E{std::to_string(t), {t}};
    }
    E int_atom(const Scope& sc, bool want_tag)
    {
        if (want_tag)
            return lit();
        std::vector<std::string> pool = sc.ints;
        pool.insert(pool.end(), sc.rints.begin(), sc.rints.end());
        if (pool.empty() || rng.chance(0.25))
            return E{std::to_string(rng.range(0, 9)), {}};
        return E{rng.pick(pool), {}};
    }
    /** integer expression; exactly when want_tag it contains one fresh tag */
    E int_expr(const Scope& sc, int depth, bool want_tag)
    {
        if (depth <= 0 || rng.chance(0.3))
            return int_atom(sc, want_tag);
        switch (rng.below(8)) {
        case 0:
        case 1: {
            static const std::vector<std::string> ops{"+", "-", "*", "%", "/", "&", "|", "^", "<<", ">>", "<?", ">?"};
            bool left = rng.chance(0.5);
            E a = int_expr(sc, depth - 1, want_tag && left);
            E b = int_expr(sc, depth - 1, want_tag && !left);
            std::string op = rng.pick(ops);
            if (op == "%" || op == "/") {
                // mostly a divisor that cannot be zero; now and then a bare identifier ("x % gi0": whether it is zero is
                // a run-time matter, and printed back it is "% g...", "% d...")
                std::vector<std::string> pool = sc.ints;
                if (!want_tag && !pool.empty() && rng.chance(0.3))
                    b = E{rng.pick(pool), {}};
                else
                    b.s = "(1 + (" + b.s + " & 7))";
            }
            E r{"(" + a.s + " " + op + " " + b.s + ")", a.tags};
            join(r, b);
            return r;
        }
        case 2: {
            E a = int_expr(sc, depth - 1, want_tag);
            a.s = "-(" + a.s + ")";
            return a;
        }
        case 3: {
            E c = bool_expr(sc, depth - 1, false, false);
            bool left = rng.chance(0.5);
            E a = int_expr(sc, depth - 1, want_tag && left);
            E b = int_expr(sc, depth - 1, want_tag && !left);
            E r{"(" + c.s + " ? " + a.s + " : " + b.s + ")", c.tags};
            join(r, a);
            join(r, b);
            return r;
        }
        case 4:
            if (!sc.arrays.empty()) {
                E i = int_expr(sc, depth - 1, want_tag);
                i.s = rng.pick(sc.arrays) + "[(" + i.s + ") & 3]";
                return i;
            }
            return int_atom(sc, want_tag);
        case 5:
            if (!sc.ifuncs.empty()) {
                bool left = rng.chance(0.5);
                E a = int_expr(sc, depth - 1, want_tag && left);
                E b = int_expr(sc, depth - 1, want_tag && !left);
                E r{rng.pick(sc.ifuncs) + "(" + a.s + ", " + b.s + ")", a.tags};
                join(r, b);
                return r;
            }
            return int_atom(sc, want_tag);
        case 6:
            if (!sc.structs.empty() && !want_tag)
                return E{rng.pick(sc.structs) + (rng.chance(0.5) ? ".a" : ".b"), {}};
            return int_atom(sc, want_tag);
        default:
            if (cfg.quantifiers && !sc.arrays.empty()) {
                std::string b = binder();
                E body = lit_or(sc, want_tag);
                E r{"(sum (" + b + " : " + qrange(sc) + ") " + rng.pick(sc.arrays) + "[" + b + "] * " + body.s + ")", body.tags};
                return r;
            }
            return int_atom(sc, want_tag);
        }
    }
    /** range of a quantifier binder: written inline or through the typedef name */
    std::string qrange(const Scope& sc) { return sc.has_idx_t && rng.chance(0.5) ? "idx_t" : "int[0,3]"; }
    E lit_or(const Scope& sc, bool want_tag)
    {
        if (want_tag)
            return lit();
        return E{std::to_string(rng.range(1, 5)), {}};
    }
    std::string binder()
    {
        if (cfg.shadowing && rng.chance(0.6)) {
            static const std::vector<std::string> pool{"q", "k", "gi0", "s0", "li0"};
            return rng.pick(pool);
        }
        return "qb" + std::to_string(uniq++);
    }
    /** boolean data expression (no clocks) */
    E bool_expr(const Scope& sc, int depth, bool want_tag, bool allow_quant)
    {
        int c = rng.below(allow_quant && cfg.quantifiers && !sc.arrays.empty() ? 7 : 5);
        if (depth <= 0)
            c = 0;
        switch (c) {
        case 0:
        case 1: {
            static const std::vector<std::string> ops{"<", "<=", "==", "!=", ">=", ">"};
            bool left = rng.chance(0.5);
            E a = int_expr(sc, depth - 1, want_tag && left);
            E b = int_expr(sc, depth - 1, want_tag && !left);
            E r{a.s + " " + rng.pick(ops) + " " + b.s, a.tags};
            join(r, b);
            return r;
        }
        case 2: {
            static const std::vector<std::string> ops{"&&", "||", "and", "or", "imply"};
            bool left = rng.chance(0.5);
            E a = bool_expr(sc, depth - 1, want_tag && left, false);
            E b = bool_expr(sc, depth - 1, want_tag && !left, false);
            E r{"(" + a.s + ") " + rng.pick(ops) + " (" + b.s + ")", a.tags};
            join(r, b);
            return r;
        }
        case 3: {
            E a = bool_expr(sc, depth - 1, want_tag, false);
            a.s = (rng.chance(0.5) ? "!(" : "not (") + a.s + ")";
            return a;
        }
        case 4:
            if (!sc.bools.empty() && !want_tag)
                return E{rng.pick(sc.bools), {}};
            if (!sc.bfuncs.empty() && !want_tag)
                return E{rng.pick(sc.bfuncs) + "()", {}};
            return bool_expr(sc, 0, want_tag, false);
        default: {
            std::string b = binder();
            E body = lit_or(sc, want_tag);
            static const std::vector<std::string> ops{"<", "<=", "!=", ">="};
            const bool paren = rng.chance(0.35);  // "forall (i : name) (body)" is also how a dynamic quantifier starts
            return E{std::string{c == 5 ? "forall" : "exists"} + " (" + b + " : " + qrange(sc) + ") " + (paren ? "(" : "") +
                         rng.pick(sc.arrays) + "[" + b + "] " + rng.pick(ops) + " " + body.s + (paren ? ")" : ""),
                     body.tags};
        }
        }
    }
    E clock_atom(const Scope& sc, bool upper_only)
    {
        E t = lit();
        const std::string& x = rng.pick(sc.clocks);
        if (upper_only)
            return E{x + (rng.chance(0.7) ? " <= " : " < ") + t.s, t.tags};
        if (sc.clocks.size() > 1 && rng.chance(0.2)) {
            const std::string& y = rng.pick(sc.clocks);
            if (y != x)
                return E{x + " - " + y + (rng.chance(0.5) ? " < " : " <= ") + t.s, t.tags};
        }
        static const std::vector<std::string> ops{">=", ">", "<", "<=", "=="};
        return E{x + " " + rng.pick(ops) + " " + t.s, t.tags};
    }
    E guard(const Scope& sc, bool allow_clocks)
    {
        bool use_clock = allow_clocks && !sc.clocks.empty() && rng.chance(0.55);
        if (use_clock) {
            E a = clock_atom(sc, false);
            if (rng.chance(0.4)) {
                E b = rng.chance(0.5) ? clock_atom(sc, false) : bool_expr(sc, cfg.depth - 1, rng.chance(0.5), true);
                E r{a.s + " && " + (b.s.find("&&") != std::string::npos || b.s.find("forall") == 0 ||
                                            b.s.find("exists") == 0 || b.s.find(" or ") != std::string::npos ||
                                            b.s.find("||") != std::string::npos || b.s.find("imply") != std::string::npos ||
                                            b.s.find(" and ") != std::string::npos
                                        ? "(" + b.s + ")"
                                        : b.s),
                    a.tags};
                join(r, b);
                return r;
            }
            return a;
        }
        return bool_expr(sc, cfg.depth, true, true);
    }
    E invariant(const Scope& sc)
    {
        if (sc.clocks.empty())
            return bool_expr(sc, 1, true, false);
        E a = clock_atom(sc, true);
        if (rng.chance(0.3)) {
            E b = clock_atom(sc, true);
            a.s += " && " + b.s;
            join(a, b);
        } else if (rng.chance(0.2)) {
            E b = bool_expr(sc, 0, true, false);
            a.s += " && " + b.s;
            join(a, b);
        }
        return a;
    }
    /** returns text, dir in text; urgent = whether an urgent channel was used */
    E sync(const Scope& sc, bool& urgent, const std::vector<std::string>& selnames)
    {
        urgent = false;
        std::string dir = rng.chance(0.5) ? "!" : "?";
        int c = rng.below(10);
        if (c < 3 && !sc.chanarrs.empty()) {
            E t = lit();
            std::string idx = t.s + " * 0";
            if (!selnames.empty() && rng.chance(0.5))
                idx = "(" + selnames[0] + " & 3) + " + idx;
            return E{rng.pick(sc.chanarrs) + "[" + idx + "]" + dir, t.tags};
        }
        if (c < 5 && !sc.bchans.empty())
            return E{rng.pick(sc.bchans) + dir, {}};
        if (c < 6 && !sc.uchans.empty()) {
            urgent = true;
            return E{rng.pick(sc.uchans) + dir, {}};
        }
        if (!sc.chans.empty())
            return E{rng.pick(sc.chans) + dir, {}};
        return E{"", {}};
    }
    E update(const Scope& sc)
    {
        E r;
        int n = rng.range(1, 3);
        bool tagged = false;
        for (int i = 0; i < n; ++i) {
            E one;
            bool want = !tagged && (i == n - 1 || rng.chance(0.6));
            int c = rng.below(8);
            if (c == 0 && !sc.clocks.empty() && !want) {
                one = E{rng.pick(sc.clocks) + " = 0", {}};
            } else if (c == 1 && !sc.vfuncs.empty() && !sc.ints.empty() && !want) {
                one = E{rng.pick(sc.vfuncs) + "(" + rng.pick(sc.ints) + ")", {}};
            } else if (c == 2 && !sc.arrays.empty()) {
                E v = int_expr(sc, cfg.depth - 1, want);
                one = E{rng.pick(sc.arrays) + "[" + std::to_string(rng.range(0, 3)) + "] = " + v.s, v.tags};
            } else if (c == 3 && !sc.structs.empty()) {
                E v = int_expr(sc, cfg.depth - 1, want);
                one = E{rng.pick(sc.structs) + (rng.chance(0.5) ? ".a" : ".b") + " = " + v.s, v.tags};
            } else if (c == 4 && !sc.ints.empty() && !want) {
                one = E{rng.pick(sc.ints) + (rng.chance(0.5) ? "++" : "--"), {}};
            } else if (!sc.ints.empty()) {
                static const std::vector<std::string> ops{"=", ":=", "+=", "-=", "*=", "|=", "&=", "^=", "<<=", ">>="};
                E v = int_expr(sc, cfg.depth - 1, want);
                one = E{rng.pick(sc.ints) + " " + rng.pick(ops) + " " + v.s, v.tags};
            } else if (!sc.clocks.empty()) {
                E v = want ? lit() : E{"0", {}};
                one = E{rng.pick(sc.clocks) + " = " + v.s, v.tags};
            } else
                continue;
            if (!one.tags.empty())
                tagged = true;
            if (!r.s.empty())
                r.s += ", ";
            r.s += one.s;
            join(r, one);
        }
        return r;
    }

    /** random layout: blanks become newlines, comments and continuations */
    std::string layout(const std::string& s, bool allow_line_comment = true)
    {
        if (!cfg.multiline)
            return s;
        std::string r;
        for (size_t i = 0; i < s.size(); ++i) {
            if (s[i] == ' ' && rng.chance(0.12)) {
                switch (rng.below(allow_line_comment ? 6 : 5)) {
                case 0: r += "\n"; break;
                case 1: r += "\n\n  "; break;
                case 2:
                    // a one-line comment, or a documentation-style block whose lines end right after a '*'
                    r += rng.chance(0.7) ? " /* c */ " : " /**\n * c\n *\n **/ ";
                    break;
                case 3: r += " \\\n "; break;
                case 4: r += "\t"; break;
                default: r += " // note\n"; break;
                }
            } else
                r += s[i];
        }
        return r;
    }
    Label label(const E& e, bool lay = true)
    {
        Label l;
        l.text = lay ? layout(e.s) : e.s;
        l.tags = e.tags;
        std::sort(l.tags.begin(), l.tags.end());
        return l;
    }

    MDecl var(const std::string& text, const std::string& name, std::vector<int> tags = {})
    {
        MDecl d;
        d.kind = MDecl::VAR;
        d.text = layout(text);
        d.name = name;
        d.tags = std::move(tags);
        std::sort(d.tags.begin(), d.tags.end());
        // number of array dimensions of the declared variable: the '[' that follow its name at nesting depth 0
        size_t at = text.find(" " + name + "[");
        if (at != std::string::npos) {
            int depth = 0;
            for (size_t i = at + 1 + name.size(); i < text.size(); ++i) {
                if (text[i] == '[' && depth++ == 0)
                    ++d.dims;
                else if (text[i] == ']')
                    --depth;
                else if (depth == 0)
                    break;
            }
        }
        return d;
    }

    void gen_globals(Model& m, Scope& sc)
    {
        auto add = [&](MDecl d) { m.gdecls.push_back(std::move(d)); };
        // a fixed core so that every label kind has something to talk about
        {
            int t = tag();
            add(var("int gi0 = " + std::to_string(t) + ";", "gi0", {t}));
            sc.ints.push_back("gi0");
        }
        add(var("clock gx0;", "gx0"));
        sc.clocks.push_back("gx0");
        add(var("chan ch0;", "ch0"));
        sc.chans.push_back("ch0");
        if (rng.chance(0.08)) {
            // a word that is a keyword in queries only is an ordinary name in a model
            static const char* qk[] = {"control", "strategy", "simulate", "bounds", "under", "imitate", "sat"};
            std::string n = qk[rng.below(7)];
            add(var("int " + n + ";", n));
            sc.ints.push_back(n);
        }
        if (rng.chance(0.25)) {
            // "lvl" is a type in some documents (or templates) and a variable in others
            lvl_used = true;
            if (rng.chance(0.4)) {
                MDecl d;
                d.kind = MDecl::TYPEDEF;
                d.text = "typedef int[0,3] lvl;";
                d.name = "lvl";
                add(d);
            } else {
                add(var("int lvl;", "lvl"));
                sc.ints.push_back("lvl");
                lvl_is_var = true;
            }
        }
        if (cfg.quantifiers && rng.chance(0.6)) {
            MDecl d;
            d.kind = MDecl::TYPEDEF;
            d.text = "typedef int[0,3] idx_t;";
            d.name = "idx_t";
            add(d);
            sc.has_idx_t = true;
        }
        int budget = cfg.max_gdecls;
        int ni = 1, nx = 1, nc = 1;
        while (budget-- > 0) {
            switch (rng.below(16)) {
            case 15: {
                // scalar sets are name-equivalent: the builder gives each an internal label from a running counter
                std::string n = "sc" + std::to_string(uniq++);
                MDecl d;
                d.kind = MDecl::TYPEDEF;
                d.text = "typedef scalar[3] " + n + ";";
                d.name = n;
                add(d);
                std::string v = "gz" + std::to_string(uniq++);
                add(var(n + " " + v + ";", v));
                if (rng.chance(0.5)) {
                    std::string a = "gza" + std::to_string(uniq++);
                    add(var("int " + a + "[" + n + "];", a));
                }
                break;
            }
            case 14: {
                // the built-in prologue (INT8_MIN ..., int8_t ..., M_PI ...) is declared by the library before every model,
                // through a different route for XML and for XTA input
                std::string n = "gu" + std::to_string(uniq++);
                switch (rng.below(5)) {
                case 0: add(var("int8_t " + n + ";", n)); sc.ints.push_back(n); break;
                case 1: add(var("const int " + n + " = INT16_MAX;", n)); sc.rints.push_back(n); break;
                case 2: add(var("int[0,UINT8_MAX] " + n + ";", n)); sc.ints.push_back(n); break;
                case 3: add(var("uint16_t " + n + " = 7;", n)); sc.ints.push_back(n); break;
                default: add(var("const double " + n + " = M_PI;", n)); break;
                }
                break;
            }
            case 0: {
                std::string n = "gi" + std::to_string(ni++);
                if (rng.chance(0.5)) {
                    int t = tag();
                    add(var("int " + n + " = " + std::to_string(t) + ";", n, {t}));
                } else
                    add(var("int " + n + ";", n));
                sc.ints.push_back(n);
                break;
            }
            case 1: {
                std::string n = "gb" + std::to_string(uniq++);
                int t = tag();
                add(var("int[0," + std::to_string(t) + "] " + n + ";", n, {t}));
                sc.ints.push_back(n);
                break;
            }
            case 2: {
                std::string n = "gc" + std::to_string(uniq++);
                int t = tag();
                add(var("const int " + n + " = " + std::to_string(t) + ";", n, {t}));
                sc.rints.push_back(n);
                break;
            }
            case 3: {
                std::string n = "gf" + std::to_string(uniq++);
                add(var("bool " + n + (rng.chance(0.5) ? " = true;" : ";"), n));
                sc.bools.push_back(n);
                break;
            }
            case 4: {
                std::string n = "gx" + std::to_string(nx++);
                add(var("clock " + n + ";", n));
                sc.clocks.push_back(n);
                break;
            }
            case 5: {
                std::string n = "arr" + std::to_string(uniq++);
                int shape = rng.below(10);
                if (shape < 4) {
                    int t = tag();
                    add(var("int " + n + "[4] = { " + std::to_string(t) + ", 1, 2, 3 };", n, {t}));
                } else if (shape < 7)
                    add(var("int " + n + "[4];", n));
                else  // a dimension given as a type (the grammar keeps a process-global nesting counter for these)
                    add(var("int " + n + "[int[0,3]];", n));
                sc.arrays.push_back(n);
                if (rng.chance(0.25)) {
                    std::string m2 = "mat" + std::to_string(uniq++);
                    add(var(rng.chance(0.5) ? "int " + m2 + "[int[0,1]][2];" : "bool " + m2 + "[int[0,1]][int[0,2]][2];", m2));
                }
                break;
            }
            case 6: {
                std::string n = "ch" + std::to_string(nc++);
                add(var("chan " + n + ";", n));
                sc.chans.push_back(n);
                break;
            }
            case 7: {
                std::string n = "bc" + std::to_string(uniq++);
                add(var("broadcast chan " + n + ";", n));
                sc.bchans.push_back(n);
                break;
            }
            case 8: {
                std::string n = "uc" + std::to_string(uniq++);
                if (rng.chance(0.3)) {
                    add(var("urgent broadcast chan " + n + ";", n));  // both prefixes
                    break;
                }
                add(var("urgent chan " + n + ";", n));
                sc.uchans.push_back(n);
                break;
            }
            case 9: {
                std::string n = "ca" + std::to_string(uniq++);
                add(var("chan " + n + "[4];", n));
                sc.chanarrs.push_back(n);
                break;
            }
            case 10: {
                std::string n = "t" + std::to_string(uniq++);
                int t = tag();
                MDecl d;
                d.kind = MDecl::TYPEDEF;
                d.text = layout("typedef int[0," + std::to_string(t) + "] " + n + ";");
                d.name = n;
                d.tags = {t};
                add(d);
                sc.int_typedefs.push_back(n);
                sc.int_typedef_tags.push_back(t);
                if (rng.chance(0.6)) {
                    std::string v = "gt" + std::to_string(uniq++);
                    add(var(n + " " + v + ";", v, {t}));
                    sc.ints.push_back(v);
                }
                break;
            }
            case 11: {
                std::string n = "s" + std::to_string(100 + uniq++);
                MDecl d;
                d.kind = MDecl::TYPEDEF;
                d.text = layout("typedef struct { int a; int b; } " + n + ";");
                d.name = n;
                add(d);
                std::string v = "gs" + std::to_string(uniq++);
                if (rng.chance(0.5)) {
                    int t = tag();
                    add(var(n + " " + v + " = { " + std::to_string(t) + ", 2 };", v, {t}));
                } else
                    add(var(n + " " + v + ";", v));
                sc.structs.push_back(v);
                break;
            }
            case 12:
                if (rng.chance(0.3)) {
                    std::string n = "s" + std::to_string(100 + uniq++);
                    MDecl d;
                    d.kind = MDecl::TYPEDEF;
                    d.text = layout("typedef struct { int a; struct { int b; bool c; } in; int d[2]; } " + n + ";");
                    d.name = n;
                    add(d);
                    std::string v = "gn" + std::to_string(uniq++);
                    add(var(n + " " + v + ";", v));
                    break;
                }
                if (!lvl_used && rng.chance(0.3)) {
                    // "lvl" is a type in some documents (or templates) and a variable in others
                    lvl_used = true;
                    if (rng.chance(0.5)) {
                        MDecl d;
                        d.kind = MDecl::TYPEDEF;
                        d.text = "typedef int[0,3] lvl;";
                        d.name = "lvl";
                        add(d);
                    } else {
                        add(var("int lvl;", "lvl"));
                        sc.ints.push_back("lvl");
                    }
                    break;
                }
                if (cfg.shadowing && std::find(sc.ints.begin(), sc.ints.end(), "q") == sc.ints.end()) {
                    add(var("int q;", "q"));
                    sc.ints.push_back("q");
                } else if (cfg.shadowing && std::find(sc.ints.begin(), sc.ints.end(), "k") == sc.ints.end()) {
                    add(var("int k;", "k"));
                    sc.ints.push_back("k");
                }
                break;
            default:
                if (cfg.functions)
                    add(gen_function(sc, "g"));
                break;
            }
        }
    }

    MDecl gen_function(Scope& sc, const std::string& prefix)
    {
        MDecl d;
        d.kind = MDecl::FUN;
        std::ostringstream os;
        int kind = rng.below(3);
        std::string n = prefix + "f" + std::to_string(uniq++);
        d.name = n;
        if (kind == 0) {
            int t = tag();
            const int t2 = tag();  // a second tag in the last statement: the whole body must arrive, not just its beginning
            d.tags = {t, t2};
            // parameter names deliberately reuse global names when shadowing is on
            std::string a = cfg.shadowing && rng.chance(0.5) ? "gi0" : "a";
            std::string b = cfg.shadowing && rng.chance(0.3) ? "q" : "b";
            if (a == b)
                b = "b";
            os << "int " << n << "(int " << a << ", int " << b << ") {\n";
            os << "  int r = " << t << ";\n";
            switch (rng.below(4)) {
            case 0:
                os << "  if (" << a << " > " << b << ") return " << a << " + r;\n  return " << b << " + " << t2 << ";\n";
                d.shape = "{i(r)r}";
                break;
            case 1:
                os << "  while (r > " << a << ") { r = r - 1; if (r == " << b << ") return r; }\n  return r + " << t2 << ";\n";
                d.shape = "{w({ei(r)})r}";
                break;
            case 2:
                os << "  for (r = 0; r < 3; r++) { " << a << " += r; }\n  return " << a << " * " << b << " + " << t2 << ";\n";
                d.shape = "{f({e})r}";
                break;
            default:
                if (!sc.arrays.empty() && cfg.quantifiers) {
                    std::string q = binder();
                    if (q == a || q == b)
                        q = "qq";
                    os << "  for (" << q << " : int[0,3]) { r += " << sc.arrays[0] << "[" << q << "]; }\n  return r + " << a
                       << " + " << t2 << ";\n";
                    d.shape = "{q({e})r}";
                } else {
                    os << "  do { r--; } while (r > " << a << ");\n  return r + " << t2 << ";\n";
                    d.shape = "{d({e})r}";
                }
                break;
            }
            os << "}";
            sc.ifuncs.push_back(n);
        } else if (kind == 1) {
            int t = tag();
            d.tags = {t};
            std::string r = cfg.shadowing && rng.chance(0.4) ? "gi0" : "r";
            os << "void " << n << "(int &" << r << ") {\n  " << r << " = " << t << ";\n";
            d.shape = "{e";
            if (rng.chance(0.5)) {
                const bool dangling = rng.chance(0.35);  // "else if (..) stmt" without a further else: the grammar's unmatched-statement branch
                d.shape += dangling ? "i({e}|i(e))" : "i({e}|e)";
                // a tagged statement in each branch: a lost else branch takes its tag with it
                const int ta = tag(), tb = tag();
                d.tags.push_back(ta);
                d.tags.push_back(tb);
                os << "  if (" << r << " > 3) { " << r << " -= " << ta << "; } else " << (dangling ? "if (" + r + " > 1) " : std::string{}) << r << " += " << tb << ";\n";
            }
            {
                const int t2 = tag();
                d.tags.push_back(t2);
                os << "  " << r << " += " << t2 << ";\n";
            }
            d.shape += "e}";
            os << "}";
            sc.vfuncs.push_back(n);
        } else {
            int t = tag();
            d.tags = {t};
            os << "bool " << n << "() {\n";
            d.shape = "{r}";
            if (!sc.arrays.empty() && cfg.quantifiers) {
                std::string q = binder();
                os << "  return forall (" << q << " : int[0,3]) " << sc.arrays[0] << "[" << q << "] <= " << t << ";\n";
            } else
                os << "  return " << (sc.ints.empty() ? std::string{"1"} : sc.ints[0]) << " < " << t << ";\n";
            os << "}";
            sc.bfuncs.push_back(n);
        }
        d.text = os.str();
        return d;
    }

    MTempl gen_template(int ti, const Scope& gsc, Scope& out_sc)
    {
        MTempl t;
        t.name = "T" + std::to_string(ti);
        Scope sc = gsc;
        // parameters
        int np = rng.below(4);
        bool all_free_ok = cfg.free_process_params && rng.chance(0.3);
        for (int i = 0; i < np; ++i) {
            MParam p;
            int c = all_free_ok ? 0 : rng.below(7);
            switch (c) {
            case 0: {
                p.name = "id" + std::to_string(i);
                int hi = rng.range(1, 3);
                p.text = "const int[0," + std::to_string(hi) + "] " + p.name;
                p.base = 'f';  // free-able bounded by-value integer
                sc.rints.push_back(p.name);
                break;
            }
            case 1: {
                p.name = "pc" + std::to_string(i);
                p.text = "const int " + p.name;
                p.base = 'i';
                sc.rints.push_back(p.name);
                break;
            }
            case 2: {
                p.name = cfg.shadowing && rng.chance(0.3) ? "gi0" : "pr" + std::to_string(i);
                for (auto& o : t.params)
                    if (o.name == p.name)
                        p.name = "pr" + std::to_string(i);
                p.text = "int &" + p.name;
                p.byref = true;
                p.base = 'i';
                sc.ints.push_back(p.name);
                break;
            }
            case 3: {
                p.name = "px" + std::to_string(i);
                p.text = "clock &" + p.name;
                p.byref = true;
                p.base = 'x';
                sc.clocks.push_back(p.name);
                break;
            }
            case 4: {
                p.name = "pch" + std::to_string(i);
                p.text = "chan &" + p.name;
                p.byref = true;
                p.base = 'c';
                sc.chans.push_back(p.name);
                break;
            }
            case 5: {
                p.name = "pb" + std::to_string(i);
                int tg = tag();
                p.text = "int[0," + std::to_string(tg) + "] " + p.name;
                p.tags = {tg};
                p.base = 'r';
                sc.ints.push_back(p.name);
                break;
            }
            default: {
                p.name = "pf" + std::to_string(i);
                p.text = "bool &" + p.name;
                p.byref = true;
                p.base = 'b';
                sc.bools.push_back(p.name);
                break;
            }
            }
            t.params.push_back(p);
        }
        // locals
        int nl = rng.below(4);
        for (int i = 0; i < nl; ++i) {
            switch (rng.below(5)) {
            case 0: {
                std::string n = "x" + std::to_string(i);
                t.decls.push_back(var("clock " + n + ";", n));
                sc.clocks.push_back(n);
                break;
            }
            case 1: {
                std::string n = (cfg.shadowing && rng.chance(0.4) && i == 0) ? "li0" : "li" + std::to_string(i + 1);
                int tg = tag();
                t.decls.push_back(var("int " + n + " = " + std::to_string(tg) + ";", n, {tg}));
                sc.ints.push_back(n);
                break;
            }
            case 2: {
                // a local that shadows a global of a different type
                if (cfg.shadowing && !gsc.clocks.empty() && rng.chance(0.5)) {
                    std::string n = gsc.clocks[0];
                    bool clash = false;
                    for (auto& d : t.decls)
                        if (d.name == n)
                            clash = true;
                    for (auto& p : t.params)
                        if (p.name == n)
                            clash = true;
                    if (!clash) {
                        t.decls.push_back(var("bool " + n + ";", n));
                        sc.clocks.erase(std::remove(sc.clocks.begin(), sc.clocks.end(), n), sc.clocks.end());
                        sc.bools.push_back(n);
                    }
                }
                break;
            }
            case 3:
                if (cfg.functions) {
                    t.decls.push_back(gen_function(sc, "l" + std::to_string(ti)));
                }
                break;
            default: {
                std::string n = "lb" + std::to_string(i);
                t.decls.push_back(var("bool " + n + ";", n));
                sc.bools.push_back(n);
                break;
            }
            }
        }
        if (lvl_is_var && ti == 0 && rng.chance(0.4)) {
            // the first template hides the global variable "lvl" behind a local type of that name; later templates
            // still mean the variable
            MDecl d;
            d.kind = MDecl::TYPEDEF;
            d.text = "typedef int[0,3] lvl;";
            d.name = "lvl";
            t.decls.push_back(d);
            t.decls.push_back(var("lvl lv" + std::to_string(ti) + ";", "lv" + std::to_string(ti)));  // ... and uses it as a type
            sc.ints.erase(std::remove(sc.ints.begin(), sc.ints.end(), "lvl"), sc.ints.end());
        }
        // locations
        const int name_style = rng.chance(0.5) ? 0 : (int)rng.below(8);
        int nlocs = rng.range(1, std::max(1, cfg.max_locs));
        for (int i = 0; i < nlocs; ++i) {
            MLoc l;
            l.id = "id" + std::to_string(ti * 100 + i);
            if (!(cfg.anonymous_locs && rng.chance(0.3))) {
                // the same XML id stands for different names in different documents (and templates); rarely a name
                // at the scanner's identifier limit (4000 characters are legal, 4001 are not)
                static const char* pool[] = {"L", "Idle", "Busy", "Start", "Wait", "Crit", "Try", "Done"};
                l.name = std::string{pool[name_style]} + std::to_string(i);
                if (i == 0 && rng.chance(0.004))
                    l.name = std::string(rng.chance(0.5) ? 4000 : 3999, 'N');
                // the one name the XML writer treats specially (it colours that location)
                if (i == nlocs - 1 && rng.chance(0.06))
                    l.name = "Err";
            }
            if (rng.chance(cfg.p_label * 0.7))
                l.inv = label(invariant(sc));
            if (rng.chance(cfg.p_label * 0.4)) {
                // a literal, or an expression with subscripts, calls and parentheses (error recovery inside those
                // keeps the label parsing while it discards productions)
                E r = rng.chance(0.5) ? lit() : int_expr(sc, std::max(1, cfg.depth), true);
                if (rng.chance(0.3)) {
                    r.s += " : " + std::to_string(rng.range(1, 9));
                }
                l.rate = label(r, false);
            }
            int f = rng.below(8);
            if (f == 0)
                l.urgent = true;
            else if (f == 1)
                l.committed = true;
            t.locs.push_back(l);
        }
        t.init = rng.below(nlocs);
        int nbp = cfg.branchpoints && rng.chance(0.5) ? rng.range(1, 2) : 0;
        for (int i = 0; i < nbp; ++i) {
            MBranch b;
            b.id = "id" + std::to_string(ti * 100 + 50 + i);
            t.bps.push_back(b);
        }
        // edges
        int nedges = rng.range(0, cfg.max_edges);
        auto mk_edge = [&](int src, bool srcb, int dst, bool dstb) {
            MEdge e;
            e.src = src;
            e.srcb = srcb;
            e.dst = dst;
            e.dstb = dstb;
            e.control = !rng.chance(0.3);
            Scope esc = sc;
            if (!srcb) {
                if (rng.chance(cfg.p_label * 0.5)) {
                    int ns = rng.range(1, 2);
                    E sel;
                    for (int k = 0; k < ns; ++k) {
                        std::string n = (cfg.shadowing && rng.chance(0.4)) ? (k == 0 ? "q" : "k") : "s" + std::to_string(k);
                        if (std::find(e.select_names.begin(), e.select_names.end(), n) != e.select_names.end())
                            n = "s" + std::to_string(k);
                        std::string ty;
                        if (!sc.int_typedefs.empty() && rng.chance(0.3)) {
                            size_t which = rng.below((uint32_t)sc.int_typedefs.size());
                            ty = sc.int_typedefs[which];
                            sel.tags.push_back(sc.int_typedef_tags[which]);
                        } else if (rng.chance(0.08)) {
                            // ranges that touch the limits of the default int range
                            static const char* lim[] = {"int[1,32767]", "int[-32768,5]", "int[0,32766]", "int[-32767,32767]"};
                            ty = lim[rng.below(4)];
                        } else {
                            int tg = tag();
                            ty = "int[0," + std::to_string(tg) + "]";
                            sel.tags.push_back(tg);
                        }
                        if (k)
                            sel.s += ", ";
                        sel.s += n + " : " + ty;
                        e.select_names.push_back(n);
                        // the binder hides any outer variable of that name
                        esc.ints.erase(std::remove(esc.ints.begin(), esc.ints.end(), n), esc.ints.end());
                        esc.rints.push_back(n);
                    }
                    e.select = label(sel);
                }
                bool urgent = false;
                if (rng.chance(cfg.p_label * 0.6)) {
                    E s = sync(esc, urgent, e.select_names);
                    if (!s.s.empty())
                        e.sync = label(s, false);
                }
                if (rng.chance(cfg.p_label))
                    e.guard = label(guard(esc, !urgent));
                // rarely a label of several hundred bytes (buffers sized for ordinary labels)
                if (e.guard.present() && rng.chance(0.02)) {
                    std::string sum = "1";
                    for (int k = rng.range(120, 400); k > 0; --k)
                        sum += " + 1";
                    e.guard.text += " && (" + sum + ") > 0";
                }
            }
            if (rng.chance(cfg.p_label)) {
                E u = update(esc);
                if (!u.s.empty())
                    e.assign = label(u);
            }
            if (srcb && rng.chance(0.8))
                e.prob = label(lit(), false);
            else if (!srcb && rng.chance(0.08))
                e.prob = label(lit(), false);  // a weight on an edge that leaves an ordinary location is legal too
            t.edges.push_back(e);
        };
        for (int i = 0; i < nedges; ++i) {
            int s = rng.below(nlocs), d = rng.chance(0.2) ? s : rng.below(nlocs);
            mk_edge(s, false, d, false);
            if (rng.chance(0.15))
                mk_edge(s, false, d, false);  // parallel edge
        }
        for (int b = 0; b < nbp; ++b) {
            mk_edge(rng.below(nlocs), false, b, true);
            int outs = rng.range(1, 3);
            for (int k = 0; k < outs; ++k)
                mk_edge(b, true, rng.below(nlocs), false);
        }
        // deterministic shuffle of edge order so that branchpoint edges are not always last
        for (size_t i = t.edges.size(); i > 1; --i)
            std::swap(t.edges[i - 1], t.edges[rng.below((uint32_t)i)]);
        out_sc = sc;
        return t;
    }

    bool lvl_used{false};
    bool lvl_is_var{false};
    int chains_made{0};
    void gen_system(Model& m, const Scope& gsc)
    {
        int pn = 0;
        for (auto& t : m.templs) {
            if (t.dynamic)
                continue;  // spawned at run time, never instantiated in the system declaration
            bool all_free = !t.params.empty();
            for (auto& p : t.params)
                if (p.base != 'f')
                    all_free = false;
            if (t.params.empty() && rng.chance(0.5)) {
                m.system.push_back(t.name);
                continue;
            }
            if (all_free && cfg.free_process_params && rng.chance(0.7)) {
                m.system.push_back(t.name);
                continue;
            }
            int n = rng.range(1, 2);
            for (int k = 0; k < n; ++k) {
                MInst in;
                in.name = "P" + std::to_string(pn++);
                in.templ = t.name;
                bool partial = cfg.partial_inst && cfg.free_process_params && !t.params.empty() &&
                               t.params[0].base == 'f' && rng.chance(0.5);
                bool ok = true;
                for (size_t i = 0; i < t.params.size(); ++i) {
                    auto& p = t.params[i];
                    MArg a;
                    if (partial && i == 0) {
                        MParam fp;
                        fp.name = "fk";
                        fp.text = p.text.substr(0, p.text.rfind(' ')) + " fk";
                        fp.base = 'f';
                        in.free_params.push_back(fp);
                        a.text = "fk";
                        a.ident = "fk";
                    } else if (p.base == 'f' || p.base == 'r') {
                        a.text = std::to_string(rng.range(0, 1));
                    } else if (p.base == 'i' && !p.byref) {
                        a.tag = tag();
                        a.text = std::to_string(a.tag);
                        // a quantifier inside the argument list: its binder scope must be gone when the instance is made
                        if (rng.chance(0.12)) {
                            static const char* q[] = {"(sum (zq : int[0,2]) zq * 0) + ", "(forall (zq : int[0,2]) zq >= 0) - 1 + ", "(exists (zq : int[0,2]) zq > 5) + "};
                            a.text = q[rng.below(3)] + a.text;
                        }
                    } else if (p.base == 'i') {
                        // plain ints only: a bounded or typedef'd int is not reference compatible
                        std::vector<std::string> plain;
                        for (auto& s : gsc.ints)
                            if (s.rfind("gi", 0) == 0 || s == "q" || s == "k")
                                plain.push_back(s);
                        if (plain.empty())
                            ok = false;
                        else
                            a.text = a.ident = rng.pick(plain);
                    } else if (p.base == 'x') {
                        a.text = a.ident = rng.pick(gsc.clocks);
                    } else if (p.base == 'c') {
                        a.text = a.ident = rng.pick(gsc.chans);
                    } else if (p.base == 'b') {
                        if (gsc.bools.empty())
                            ok = false;
                        else
                            a.text = a.ident = rng.pick(gsc.bools);
                    }
                    in.args.push_back(a);
                }
                if (!ok)
                    continue;
                m.insts.push_back(in);
                m.system.push_back(in.name);
            }
        }
        // chains: an instance that instantiates another instance (binding its free parameter, keeping it free under a
        // new name, or - for a full instance - with an empty argument list); the process is built from the end of the chain
        if (cfg.partial_inst) {
            int nchains = rng.chance(0.45) ? rng.range(1, 3) : 0;
            for (int c = 0; c < nchains && !m.insts.empty(); ++c) {
                const MInst base = m.insts[rng.below((uint32_t)m.insts.size())];
                MInst in;
                in.name = "C" + std::to_string(c);
                in.templ = base.templ;
                in.base = base.name;
                for (auto& fp : base.free_params) {
                    MArg a;
                    if (cfg.free_process_params && rng.chance(0.4)) {
                        MParam np = fp;
                        np.name = fp.name + "c";
                        np.text = fp.text.substr(0, fp.text.rfind(' ')) + " " + np.name;
                        in.free_params.push_back(np);
                        a.text = a.ident = np.name;
                    } else
                        a.text = std::to_string(rng.range(0, 1));
                    in.args.push_back(a);
                }
                m.insts.push_back(in);
                // the chained instance replaces its base in the system line, or runs next to it
                auto it = std::find(m.system.begin(), m.system.end(), base.name);
                if (it != m.system.end() && rng.chance(0.5))
                    *it = in.name;
                else
                    m.system.push_back(in.name);
                ++chains_made;
            }
        }
        if (m.system.empty() && !m.templs.empty()) {
            // make sure something runs: add a parameterless template
            MTempl t;
            t.name = "T" + std::to_string(m.templs.size());
            MLoc l;
            l.id = "id" + std::to_string(m.templs.size() * 100);
            l.name = "L0";
            t.locs.push_back(l);
            m.templs.push_back(t);
            m.system.push_back(t.name);
        }
        // a quantified invariant over the rates and bounds of a clock array (the type checker splits it into the
        // invariant proper and the rate part, conjunct by conjunct)
        if (rng.chance(0.06)) {
            std::vector<MLoc*> free_locs;
            for (auto& t : m.templs)
                if (!t.dynamic)
                    for (auto& l : t.locs)
                        if (!l.inv.present())
                            free_locs.push_back(&l);
            if (!free_locs.empty()) {
                MDecl ca;
                ca.kind = MDecl::VAR;
                ca.name = "zxa";
                ca.dims = 1;
                ca.text = "clock zxa[2];";
                m.gdecls.push_back(ca);
                MLoc* l = free_locs[rng.below((uint32_t)free_locs.size())];
                const int t1 = tag();
                l->inv.text = std::string{"forall (zi : int[0,1]) (zxa[zi]' == 0 && zxa[zi] "} + (rng.chance(0.5) ? "<" : "<=") + " " + std::to_string(t1) + ")";
                l->inv.tags = {t1};
            }
        }
        // a variable declared in the system block whose type name means something else inside the last template: in the
        // .xta rendering that type name is the very first token after the closing brace of that process
        if (rng.chance(0.15) && !m.templs.empty() && !m.templs.back().dynamic) {
            MDecl td;
            td.kind = MDecl::TYPEDEF;
            td.name = "zt_t";
            td.text = "typedef int[0,7] zt_t;";
            m.gdecls.push_back(td);
            MDecl lv;
            lv.kind = MDecl::VAR;
            lv.name = "zt_t";
            int t1 = tag();
            lv.text = "int zt_t = " + std::to_string(t1) + ";";
            lv.tags = {t1};
            m.templs.back().decls.push_back(lv);
            MDecl sv;
            sv.kind = MDecl::VAR;
            sv.name = "zsv";
            sv.text = "zt_t zsv = " + std::to_string(rng.range(0, 7)) + ";";
            m.sys_decls.push_back(sv);
        }
        for (size_t i = 1; i < m.system.size(); ++i)
            m.prio_lt.push_back(cfg.priorities && rng.chance(0.4));
        if (cfg.priorities && rng.chance(0.3) && gsc.chans.size() >= 2)
        {
            // "default" may stand anywhere in the list, also first
            const std::string &a = gsc.chans[0], &b = gsc.chans[1];
            switch (rng.below(7)) {
            case 0: m.chan_priority = "chan priority " + a + " < " + b + ";"; break;
            case 1: m.chan_priority = "chan priority " + a + " < " + b + " , default;"; break;
            case 2: m.chan_priority = "chan priority default < " + a + ";"; break;
            case 3: m.chan_priority = "chan priority default , " + a + " < " + b + ";"; break;
            case 4: m.chan_priority = "chan priority " + a + " < default < " + b + ";"; break;
            case 5: m.chan_priority = "chan priority " + a + " , " + b + " < default;"; break;
            default: m.chan_priority = "chan priority " + b + " < " + a + ";"; break;
            }
        }
        if (cfg.queries) {
            int nq = rng.range(1, 3);
            for (int i = 0; i < nq; ++i) {
                MQuery q;
                static const std::vector<std::string> fs{"A[] not deadlock", "E<> gi0 > 3", "A<> gi0 >= 0 imply gx0 < 10",
                                                         "E[] true", "gi0 == 1 --> gi0 == 2"};
                q.formula = rng.pick(fs);
                q.comment = rng.chance(0.5) ? "a <comment> & more" : "";
                if (rng.chance(0.4))
                    q.options.emplace_back("--diagnostic", std::to_string(rng.range(0, 2)));
                if (rng.chance(0.3))
                    q.options.emplace_back("--search-order", "1");
                if (rng.chance(0.4)) {
                    q.has_expect = true;
                    static const std::vector<std::string> oc{"success", "failure", "maybe_true", "maybe_false", "weird"};
                    static const std::vector<std::string> ty{"quality", "probability", "value", "time", "other"};
                    q.outcome = rng.pick(oc);
                    q.type = rng.pick(ty);
                    q.value = rng.chance(0.5) ? "0.5" : "1";
                    q.has_resource = rng.chance(0.5);
                }
                m.queries.push_back(q);
            }
        }
    }
};

}  // namespace

Model gen_model(Rng& rng, const GenCfg& cfg)
{
    G g{rng, cfg};
    Model m;
    Scope gsc;
    g.gen_globals(m, gsc);
    int nt = rng.range(1, std::max(1, cfg.max_templates));
    for (int i = 0; i < nt; ++i) {
        Scope tsc;
        m.templs.push_back(g.gen_template(i, gsc, tsc));
    }
    if (!cfg.dynamic_templates && rng.chance(0.06) && !m.templs.empty())
        m.templs.back().name = "D0";  // an ordinary template under the name the dynamic template has in other documents
    if (cfg.dynamic_templates) {
        // a dynamic template with parameters, defined somewhere before the last ordinary template
        MTempl d;
        d.dynamic = true;
        d.name = "D0";
        for (int i = 0; i < 2; ++i) {
            MParam p;
            p.name = "dp" + std::to_string(i);
            p.text = "const int " + p.name;
            d.params.push_back(p);
        }
        for (int i = 0; i < 2; ++i) {
            MLoc l;
            l.id = "id" + std::to_string(900 + i);
            l.name = "L" + std::to_string(i);
            d.locs.push_back(l);
        }
        MEdge e;
        e.src = 0;
        e.dst = 1;
        int t = g.tag();
        e.guard.text = "dp0 < " + std::to_string(t);
        e.guard.tags = {t};
        d.edges.push_back(e);
        MDecl decl;
        decl.kind = MDecl::OTHER;
        decl.name = "D0";
        decl.text = "dynamic D0(const int dp0, const int dp1);";
        m.gdecls.push_back(decl);
        // some edge of an ordinary template spawns it
        {
            std::vector<MEdge*> cands;
            for (auto& t : m.templs)
                for (auto& e : t.edges)
                    if (e.assign.present())
                        cands.push_back(&e);
            if (!cands.empty() && rng.chance(0.7)) {
                MEdge* e = cands[rng.below((uint32_t)cands.size())];
                int tg = g.tag();
                e->assign.text += ", spawn D0(" + std::to_string(tg) + ", 1)";
                e->assign.tags.push_back(tg);
                std::sort(e->assign.tags.begin(), e->assign.tags.end());
            }
        }
        m.templs.insert(m.templs.begin() + rng.below((uint32_t)m.templs.size()), d);
    }
    g.gen_system(m, gsc);
    return m;
}


Model gen_old_model(Rng& rng)
{
    Model m;
    m.old_syntax = true;
    int next_tag = 100731;
    auto tag = [&] { return next_tag++; };
    auto var = [&](const std::string& text, const std::string& name, std::vector<int> tags = {}, int dims = 0) {
        MDecl d;
        d.kind = MDecl::VAR;
        d.text = text;
        d.name = name;
        d.tags = std::move(tags);
        d.dims = dims;
        return d;
    };
    {
        int t = tag();
        m.gdecls.push_back(var("int gi0 := " + std::to_string(t) + ";", "gi0", {t}));
    }
    m.gdecls.push_back(var("clock gx0;", "gx0"));
    m.gdecls.push_back(var("chan ch0;", "ch0"));
    std::vector<std::string> gints{"gi0"}, gclocks{"gx0"}, gchans{"ch0"};
    int extra = rng.range(0, 5);
    for (int i = 0; i < extra; ++i) {
        switch (rng.below(5)) {
        case 0: {
            std::string n = "gi" + std::to_string(gints.size());
            m.gdecls.push_back(var("int " + n + ";", n));
            gints.push_back(n);
            break;
        }
        case 1: {
            int t = tag();
            std::string n = "gc" + std::to_string(i);
            m.gdecls.push_back(var("const " + n + " " + std::to_string(t) + ";", n, {t}));
            break;
        }
        case 2: {
            std::string n = "arr" + std::to_string(i);
            m.gdecls.push_back(var("int " + n + "[4];", n, {}, 1));
            break;
        }
        case 3: {
            std::string n = "gx" + std::to_string(gclocks.size());
            m.gdecls.push_back(var("clock " + n + ";", n));
            gclocks.push_back(n);
            break;
        }
        default: {
            std::string n = "ch" + std::to_string(gchans.size());
            m.gdecls.push_back(var("chan " + n + ";", n));
            gchans.push_back(n);
            break;
        }
        }
    }
    const int nt = rng.range(1, 3);
    int pn = 0;
    for (int ti = 0; ti < nt; ++ti) {
        MTempl t;
        t.name = "T" + std::to_string(ti);
        std::vector<std::string> ints = gints, clocks = gclocks, chans = gchans;
        const int np = rng.below(4);
        for (int k = 0; k < np; ++k) {
            MParam p;
            switch (rng.below(4)) {
            case 0: p.name = "pa" + std::to_string(k); p.text = "int " + p.name; p.byref = true; p.base = 'i'; ints.push_back(p.name); break;
            case 1: p.name = "pc" + std::to_string(k); p.text = "const " + p.name; p.byref = false; p.base = 'k'; break;
            case 2: p.name = "px" + std::to_string(k); p.text = "clock " + p.name; p.byref = true; p.base = 'x'; clocks.push_back(p.name); break;
            default: p.name = "pch" + std::to_string(k); p.text = "chan " + p.name; p.byref = true; p.base = 'c'; chans.push_back(p.name); break;
            }
            // "const a, b" - one group for consecutive constant parameters
            if (!t.params.empty() && p.base == 'k' && t.params.back().base == 'k' && rng.chance(0.6)) {
                MParam* head = &t.params.back();
                for (size_t h = t.params.size(); h-- > 0;)
                    if (!t.params[h].text.empty()) {
                        head = &t.params[h];
                        break;
                    }
                head->text += ", " + p.name;
                p.text.clear();
            }
            t.params.push_back(p);
        }
        {
            std::string n = "x" + std::to_string(ti);
            t.decls.push_back(var("clock " + n + ";", n));
            clocks.push_back(n);
            if (rng.chance(0.5)) {
                int tg = tag();
                std::string li = "li" + std::to_string(ti);
                t.decls.push_back(var("int " + li + " := " + std::to_string(tg) + ";", li, {tg}));
                ints.push_back(li);
            }
        }
        auto conj = [&](Label& l, int n, bool upper_only) {
            for (int i = 0; i < n; ++i) {
                int tg = tag();
                std::string atom;
                if (upper_only || rng.chance(0.5))
                    atom = rng.pick(clocks) + (upper_only ? (rng.chance(0.5) ? " <= " : " < ") : (rng.chance(0.5) ? " >= " : " <= ")) + std::to_string(tg);
                else
                    atom = rng.pick(ints) + (rng.chance(0.5) ? " < " : " == ") + std::to_string(tg);
                l.text += (i ? ", " : "") + atom;  // the old syntax writes a conjunction as a comma-separated list
                l.tags.push_back(tg);
            }
        };
        const int nl = rng.range(1, 4);
        for (int i = 0; i < nl; ++i) {
            MLoc l;
            l.id = "id" + std::to_string(ti * 100 + i);
            if (!rng.chance(0.2))
                l.name = "L" + std::to_string(i);
            if (rng.chance(0.5))
                conj(l.inv, rng.range(1, 2), true);
            int f = rng.below(8);
            l.urgent = f == 0;
            l.committed = f == 1;
            t.locs.push_back(l);
        }
        t.init = rng.below((uint32_t)nl);
        const int ne = rng.below(6);
        for (int i = 0; i < ne; ++i) {
            MEdge e;
            e.src = rng.below((uint32_t)nl);
            e.dst = rng.below((uint32_t)nl);
            if (rng.chance(0.6))
                conj(e.guard, rng.range(1, 3), false);
            if (rng.chance(0.4)) {
                e.sync.text = rng.pick(chans) + (rng.chance(0.5) ? "!" : "?");
            }
            if (rng.chance(0.6)) {
                int n = rng.range(1, 2);
                for (int k = 0; k < n; ++k) {
                    int tg = tag();
                    e.assign.text += std::string{k ? ", " : ""} + rng.pick(ints) + " := " + std::to_string(tg) + (rng.chance(0.3) ? " + 1" : "");
                    e.assign.tags.push_back(tg);
                }
                if (rng.chance(0.3))
                    e.assign.text += ", " + rng.pick(clocks) + " := 0";
            }
            t.edges.push_back(e);
        }
        // keep edges with the same source together now and then, so that the XTA rendering chains them
        m.templs.push_back(t);
        // instantiate
        const int ninst = t.params.empty() && rng.chance(0.5) ? 0 : rng.range(1, 2);
        if (ninst == 0)
            m.system.push_back(t.name);
        for (int k = 0; k < ninst; ++k) {
            MInst in;
            in.name = "P" + std::to_string(pn++);
            in.templ = t.name;
            for (auto& p : t.params) {
                MArg a;
                if (p.base == 'i')
                    a.text = a.ident = rng.pick(gints);
                else if (p.base == 'k') {
                    a.tag = tag();
                    a.text = std::to_string(a.tag);
                } else if (p.base == 'x')
                    a.text = a.ident = rng.pick(gclocks);
                else
                    a.text = a.ident = rng.pick(gchans);
                in.args.push_back(a);
            }
            m.insts.push_back(in);
            m.system.push_back(in.name);
        }
    }
    for (size_t i = 1; i < m.system.size(); ++i)
        m.prio_lt.push_back(false);
    return m;
}

void localize_ids(Model& m, Rng& rng)
{
    for (auto& t : m.templs) {
        std::vector<int> nums(t.locs.size() + t.bps.size());
        for (size_t i = 0; i < nums.size(); ++i)
            nums[i] = (int)i;
        for (size_t i = nums.size(); i > 1; --i)
            std::swap(nums[i - 1], nums[rng.below((uint32_t)i)]);
        size_t k = 0;
        for (auto& l : t.locs)
            l.id = "id" + std::to_string(nums[k++]);
        for (auto& b : t.bps)
            b.id = "id" + std::to_string(nums[k++]);
    }
}

}  // namespace sim
