// Executes one library call under the seams and produces its canonical record.
#pragma once
#include "dump.h"
#include "seams.h"

#include "utap/property.h"

#include <memory>
#include <string>

namespace sim {

enum Entry { E_XML_BUFFER, E_XML_FILE, E_XML_FD, E_XTA_STR, E_XTA_FILE, E_PART, E_PROP_STR, E_PROP_FILE, E_WRITE, E_COUNT };
enum Backend { B_DOC, B_BUILDER, B_PRETTY, B_TIGA, B_COUNT };
const char* entry_name(int);
const char* backend_name(int);

struct CallSpec
{
    int entry{E_XML_BUFFER};
    int backend{B_DOC};
    bool newxta{true};
    int part{0};        // xta_part_t for E_PART
    std::string xpath;  // for E_PART / E_PROP_STR
    std::string bytes;  // input (for E_WRITE: sink name)
    Sched sched;
    int64_t alloc_fail_at{-1};
    int64_t sink_fail_after{-1};  // B_PRETTY: the output stream fails (throws std::ios_base::failure) after that many bytes; -1 = never
    uint64_t ceiling{0};
    int errno_before{0};
    int cwd{0};  // working directory of the process during the call: 0 = unchanged, 1 "/", 2 "/usr", 3 "/var"
    bool is_xml() const { return entry == E_XML_BUFFER || entry == E_XML_FILE || entry == E_XML_FD; }
    std::string str() const;
};

struct CallResult
{
    bool threw{false};
    bool nonstd{false};  // something not derived from std::exception was thrown
    std::string exc_class;
    std::string exc_what;
    long ret{0};
    OpCtx ctx;  // what the seams counted during the call
    bool sink_fault_fired{false};
    bool env_faulted() const { return ctx.fail_fired || ctx.io_fault_fired != IO_NONE || sink_fault_fired; }
    std::string pretty_out;  // B_PRETTY
};

/** the life of one Document */
struct Session
{
    std::unique_ptr<UTAP::Document> doc;
    std::unique_ptr<UTAP::TigaPropertyBuilder> tiga;  // lives as long as the document
    bool tainted{false};      // an allocation fault hit a call on this document
    bool has_load{false};
    bool load_threw{false};
    bool load_xml{false};
    std::string delivered;    // bytes of the load
    void drop()
    {
        tiga.reset();
        doc.reset();
    }
};

/** runs the call; never lets an exception escape */
CallResult run_call(Session& s, const CallSpec& c, int op_index);

/** canonical record of the call (3.7 of DESIGN.md) */
std::string record_of(Session& s, const CallSpec& c, const CallResult& r, const DumpOpts& o = {});

/** default deterministic cost ceiling for a call with this many input bytes */
uint64_t default_ceiling(size_t input_bytes);

}  // namespace sim
