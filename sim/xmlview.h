// Independent reader (libxml2 tree API, no libutap code) of a UPPAAL XML file: the oracle side of the
// writer profile.
#pragma once
#include <map>
#include <set>
#include <string>
#include <vector>

namespace sim {

struct WLabel
{
    std::string kind, text;
};
struct WLoc
{
    std::string id, name;
    std::vector<WLabel> labels;
    bool urgent{false}, committed{false};
};
struct WTrans
{
    std::string source, target;  // ids
    std::string controllable;    // attribute value or "" when absent
    std::vector<WLabel> labels;
};
struct WTempl
{
    std::string name, parameter, declaration;
    std::vector<WLoc> locs;
    std::vector<std::string> branchpoints;  // ids
    std::vector<std::string> inits;         // refs
    std::vector<WTrans> trans;
};
struct WDoc
{
    std::string declaration, system;
    std::vector<WTempl> templs;
};

/** false when the bytes are not well-formed XML (err says why) */
bool parse_written(const std::string& xml, WDoc& out, std::string& err);
/** integer literals >= 100000 in a text */
std::set<int> text_tags(const std::string& text);

}  // namespace sim
