// Workload generator: the abstract model M (the simulator's sequential specification of a document),
// its two renderers (UPPAAL XML with serialisation knobs, XTA), and content faults
// (byte, structure and token granularity).  No libutap code is involved.
#pragma once
#include "rng.h"

#include <map>
#include <string>
#include <vector>

namespace sim {

struct Label
{
    std::string text;  // empty = label absent
    std::vector<int> tags;
    bool present() const { return !text.empty(); }
};

struct MDecl
{
    enum Kind { VAR, FUN, TYPEDEF, OTHER } kind{VAR};
    int dims{0};  // VAR: number of array dimensions
    std::string text;  // one complete declaration statement (may span lines)
    std::string name;
    std::vector<int> tags;
    std::string shape;  // FUN: the statement skeleton of the body (see summarize_document), "" = not stated
};

struct MParam
{
    std::string text;
    std::string name;
    bool byref{false};
    char base{'i'};  // i=int, b=bool, x=clock, c=chan
    std::vector<int> tags;
};

struct MLoc
{
    std::string id;
    std::string name;  // empty = anonymous ("_"+id)
    Label inv, rate;
    bool urgent{false}, committed{false};
    std::string docname() const { return name.empty() ? "_" + id : name; }
};

struct MBranch
{
    std::string id;
    std::string docname() const { return "_" + id; }
};

struct MEdge
{
    std::string dst_id_override;  // model fault: the target ref written to the XML (an id of another template)
    int src{0};
    bool srcb{false};
    int dst{0};
    bool dstb{false};
    bool control{true};
    Label select, guard, sync, assign, prob;
    std::vector<std::string> select_names;
};

struct MTempl
{
    bool dynamic{false};  // declared "dynamic Name(params);" in the global declarations; defined by this <template>
    std::string name;
    std::vector<MParam> params;
    std::vector<MDecl> decls;
    std::vector<MLoc> locs;
    std::vector<MBranch> bps;
    int init{0};
    bool omit_init{false};      // model fault (XML rendering only): no <init> element
    std::string init_override;  // model fault: the init ref / name written instead of the initial location's
    std::vector<MEdge> edges;
};

struct MArg
{
    std::string text;
    int tag{0};           // literal tag for by-value arguments
    std::string ident;    // identifier for by-reference / forwarded arguments
};

struct MInst
{
    std::string name, templ;
    std::string base;  // non-empty: this instance instantiates the instance `base` (a chain); `templ` stays the root template
    std::vector<MParam> free_params;  // partial instantiation
    std::vector<MArg> args;
};

struct MQuery
{
    std::string formula, comment;
    std::vector<std::pair<std::string, std::string>> options;
    bool has_expect{false};
    std::string outcome, type, value;
    bool has_resource{false};
};

struct Model
{
    bool old_syntax{false};  // UPPAAL 3.x syntax: to be parsed with newxta == false
    std::vector<MDecl> gdecls;
    std::vector<MTempl> templs;
    std::vector<MInst> insts;
    std::vector<std::string> system;  // process names in system line
    std::vector<bool> prio_lt;        // separator before system[i] (i>=1): true '<', false ','
    std::string chan_priority;        // optional "chan priority a < b;" line (in system block)
    std::vector<MQuery> queries;
    std::vector<MDecl> sys_decls;     // variables declared at the start of the <system> block (they join the globals)
    std::string system_raw;           // when non-empty: the complete text of the <system> block (faulted)
    bool omit_system{false};          // model fault: no <system> element (XTA: no instantiations and no system line)
    bool has_branchpoints() const;
    bool has_free_process_params() const;
};

struct GenCfg
{
    int max_templates{3};
    int max_locs{5};
    int max_edges{7};
    int max_gdecls{10};
    double p_label{0.6};
    bool branchpoints{true};
    bool partial_inst{true};
    bool free_process_params{true};
    bool priorities{true};
    bool queries{true};
    bool functions{true};
    bool quantifiers{true};
    bool shadowing{true};      // reuse binder names of globals
    bool multiline{true};      // labels / declarations spanning several lines, comments, continuations
    bool anonymous_locs{true};
    bool dynamic_templates{false};  // one template is a dynamic template (declared in the globals, defined in between the others)
    bool xta_compatible{false};  // restrict to the common subset of both formats (C05)
    int depth{2};                // expression nesting depth
};

/** swarm: draw a configuration */
GenCfg draw_cfg(Rng& rng);
Model gen_model(Rng& rng, const GenCfg& cfg);
/** a model in the old (3.x) syntax: "const N 5;", parameters separated by ';' (non-const ones are references), guards and
 *  invariants as comma-separated conjunct lists, ':=' assignments; no selects, functions, branchpoints, probabilities */
Model gen_old_model(Rng& rng);

/** serialisation knobs for the XML renderer (class-B "equivalent serialisations") */
struct XmlKnobs
{
    bool xml_decl{true};
    bool doctype{true};
    int indent{0};             // 0 none (compact), 1 newlines+tabs, 2 random blanks
    bool single_quotes{false};
    bool coords{true};         // x/y attributes, nails, colours
    bool attr_shuffle{false};
    int text_escape{0};        // 0 minimal entities, 1 also &gt; &quot; &apos;, 2 numeric char refs, 3 CDATA, 4 split CDATA
    bool comments_between{false};  // XML comments / PIs between elements
    bool empty_elems{false};       // <parameter/>, <declaration/> present but empty
    bool pad_text{false};          // leading / trailing blanks and newlines around block text
    bool rate_before_invariant{false};  // separately reported family
    bool comment_in_text{false};        // separately reported family (F-C04-1)
    bool project_root{false};           // <project> instead of <nta>   (not used by default)
    bool crlf{false};                   // CRLF line ends inside text blocks
    bool split_instantiation{false};    // the instantiations stand in an <instantiation> element in front of <system> (legacy
                                        // layout the DTD still allows); not drawn by default: blocks are addressed by /nta/system
    int imports_elem{0};                // 1: <imports>text</imports>, 2: <imports/> as the first child (optional in the DTD)
    int big_text_lines{0};              // > 0: the global declaration starts with a comment of that many lines (a text node of
                                        // tens of KB: libxml2 refills its input buffer several times inside one text node)
};
XmlKnobs draw_knobs(Rng& rng);
/** renumbers the id attributes so that they are unique within each template only (every template counts from id0, in a
 *  shuffled order): what pasting templates from several files produces; the reader warns and resolves refs per template */
void localize_ids(Model&, Rng& rng);
std::string knobs_str(const XmlKnobs&);

/** label_paths (optional): receives the XPath of every label element that carries text, keyed "<kind>:<template>:<index>"
 *  (kind as in the XML, index of the location / edge) - the renderer knows about the empty sibling elements it emits */
std::string render_xml(const Model&, const XmlKnobs&, Rng& rng, std::map<std::string, std::string>* label_paths = nullptr);
std::string render_xta(const Model&);
/** what summarize_document() must print for a faithful document */
std::string expected_summary(const Model&, bool after_typecheck);
/** what the independent DOM walk of a written file must find (writer oracle) is derived from the Document, not from M */

// ---------------------------------------------------------------------------------------------
// blocks and token faults (blast)
// ---------------------------------------------------------------------------------------------
struct BlockRef
{
    enum Kind { GDECL, TDECL, PARAM, INV, RATE, SELECT, GUARD, SYNC, ASSIGN, PROB, SYSTEM } kind;
    int templ{-1};
    int index{-1};  // location / edge index
    std::string xpath;  // where the block lives in the rendered XML
    bool declaring() const { return kind == GDECL || kind == TDECL || kind == PARAM || kind == SELECT || kind == SYSTEM; }
    const char* field() const;
    const char* kind_name() const;
};
std::vector<BlockRef> list_blocks(const Model&);
/** mutable access to the text of a block */
std::string get_block_text(const Model&, const BlockRef&);
void set_block_text(Model&, const BlockRef&, const std::string&);

struct Token
{
    size_t off, len;
    unsigned line, col;  // 1-based line, 0-based column (bytes) inside the block text
    char cls;            // 'i' identifier, 'n' number, 'o' operator/punctuation
};
std::vector<Token> tokenize(const std::string& text);

enum TokenFault {
    TF_UNDECLARED,     // replace an identifier by a fresh undeclared one
    TF_DROP_OPERAND,   // drop the right operand of a binary-only operator
    TF_EXTRA_PAREN,    // extra '('
    TF_STRAY_BRACKET,  // stray ']'
    TF_STRAY_AT,       // stray '@'
    TF_OPEN_COMMENT,   // unterminated /*
    TF_DROP_TOKEN,     // delete a token
    TF_DUP_TOKEN,      // duplicate a token
    TF_TRUNCATE,       // cut the text after the token
    TF_SIDE_EFFECT,    // append an assignment / increment (guard, invariant, sync, probability)
    TF_CHAN_ARITH,     // a channel used arithmetically
    TF_BAD_TERNARY,    // a conditional whose branches are a channel and an integer (the error is rooted at the ?: node)
    TF_OVERFLOW_LITERAL,  // a number replaced by an integer literal beyond INT_MAX
    TF_CHAN_OPERAND,   // a number replaced by a channel name (an ill-typed operand or argument)
    TF_CHAN_TO_INT,    // "urgent broadcast chan c" -> "urgent broadcast int c": a prefix that does not fit the type
    TF_COUNT
};
const char* token_fault_name(int);

struct FaultResult
{
    bool applied{false};
    std::string text;
    bool guaranteed_error{false};  // ill-formed by construction
    // for TF_UNDECLARED: where the fresh identifier is
    unsigned line{0}, scol{0}, ecol{0};
    std::string ident;
    int decl_index{-1};  // for declaration blocks: index of the declaration that contains the fault
    bool type_position{false};  // TF_UNDECLARED hit a type name ("(q : idx_t)"): the result is a syntax error, not a semantic one
};
FaultResult apply_token_fault(const std::string& text, const std::vector<Token>& toks, size_t tok, int fault, BlockRef::Kind kind,
                              const std::string& a_channel);

// ---------------------------------------------------------------------------------------------
// byte / structure faults (storm)
// ---------------------------------------------------------------------------------------------
enum ByteFault { BF_TRUNCATE, BF_FLIP, BF_ZERO_RANGE, BF_DUP_RANGE, BF_DROP_RANGE, BF_COUNT };
enum StructFault {
    SF_DROP_ATTR,
    SF_EMPTY_ATTR,
    SF_DUP_ATTR_VALUE,   // give an attribute the value of a sibling's (duplicate ids, dangling refs)
    SF_DROP_ELEM,
    SF_DUP_ELEM,
    SF_EMPTY_ELEM,       // keep tags, drop content
    SF_SWAP_SIBLINGS,
    SF_EMPTY_TEXT,
    SF_RENAME_TAG,
    SF_ODD_TEXT,         // the text of a leaf element that is not a grammar block (name, lsclocation, anchors, ...) becomes
                         // something its reader does not expect: not a number, not an identifier, padded, huge
    SF_COUNT
};
const char* byte_fault_name(int);
const char* struct_fault_name(int);
std::string apply_byte_fault(const std::string& bytes, int fault, Rng& rng, std::string& desc);
/** operates on the XML text with a small tolerant scanner (the input need not be well formed afterwards) */
std::string apply_struct_fault(const std::string& xml, int fault, Rng& rng, std::string& desc);
/** token-level fault somewhere in a text block of an XML model (or in a plain text) */
std::string apply_random_token_fault_xml(const std::string& xml, Rng& rng, std::string& desc);
std::string apply_random_token_fault_text(const std::string& text, Rng& rng, std::string& desc);

/** model-level faults: well-formed XML / lexically fine XTA whose *meaning* is wrong in a way the library must survive and
 *  recover from (duplicate names, wrong argument counts, unknown templates, references across templates, a system line
 *  that is abandoned): the recovered-from-error documents C08 speaks of. Returns false when the model offers no site. */
enum ModelFault {
    MF_DUP_LOC_NAME,
    MF_DROP_ARG,
    MF_EXTRA_ARG,
    MF_UNKNOWN_TEMPLATE,
    MF_DUP_TEMPLATE_NAME,
    MF_SYSTEM_NO_SEMI,
    MF_DUP_PROCESS,
    MF_DUP_DECL,
    MF_DUP_PARAM,
    MF_FOREIGN_TARGET,   // an edge whose target id belongs to another template
    MF_INIT_IS_BRANCHPOINT,
    MF_UNKNOWN_PROCESS,
    MF_EMPTY_TEMPLATE,   // a template without locations, init and edges (XTA: "process T() { }")
    MF_BAD_DYNAMIC_DECL, // "dynamic DX(clock &r);": a dynamic template may not take references; the declaration is rejected
    MF_NO_SYSTEM,        // no <system> element / no system line at all
    MF_EXTRA_INITIALISER,  // a struct variable initialised with more elements than the struct has fields
    MF_FUNC_NO_RETURN,   // a non-void function that lost its final return statement
    MF_URGENT_AND_COMMITTED,  // a location flagged both urgent and committed (diagnosed; the first flag in document order stays)
    MF_DYNAMIC_PARAM_MISMATCH,  // a dynamic template declared with another parameter list than its definition has
    MF_RANDOM_INIT,      // "double zrnd = random(5);": a random built-in where a compile-time value is demanded
    MF_GLOBAL_DECL_IN_TEMPLATE,  // a declaration that only makes sense globally (dynamic template, process, instantiation,
                                 // priorities, update hooks) inside a template's local <declaration>
    MF_BAD_NAME,         // a location or template name that is not an identifier ("2nd", "Se-en", "Obs erver"; XML rendering only)
    MF_NO_INIT,          // a template (also the definition of a dynamic template) without <init> (XML rendering only)
    MF_BAD_ITERATION_TYPE,  // "for (zi : bool)" / "for (zi : clock)" in a function body (diagnosed by the type checker)
    MF_COUNT
};
const char* model_fault_name(int);
/** semantic_only: avoid variants that are syntax errors in disguise (a duplicated typedef makes its name a type name) */
bool apply_model_fault(Model& m, int fault, Rng& rng, bool semantic_only = false);

std::string xml_escape(const std::string&, int mode = 0);

}  // namespace sim
