// Canonical records of what a library call produced, and the monitors evaluated on every live Document.
#pragma once
#include "utap/utap.h"

#include <set>
#include <string>
#include <vector>

namespace sim {

/** Set by the runner: called with +1 / -1 around every traversal of a Document by the harness (dumps, monitors, oracles), so
 *  that a crash while walking the public members of a document is attributed to the document, not to the harness. */
extern void (*g_on_traversal)(int delta);
struct TraversalScope
{
    TraversalScope()
    {
        if (g_on_traversal)
            g_on_traversal(+1);
    }
    ~TraversalScope()
    {
        if (g_on_traversal)
            g_on_traversal(-1);
    }
};

struct DumpOpts
{
    bool positions{true};    // (path,line,col) of label roots, symbols and diagnostics
    bool paths{true};        // include XPath strings (off when comparing XML against XTA)
    bool diagnostics{true};  // include errors / warnings
    bool diag_as_multiset{false};  // sort diagnostics, drop positions (C05)
    bool builtins{false};    // include the built-in declarations (INT8_MIN ...)
    bool typechecked_only{false};  // leave out document-wide verdicts (supported methods, flags) that one label can change
    bool twin{false};        // leave out what the two input formats cannot both express (edge action name, LSC type/mode)
    // mask one label: template index, 'L'ocation / 'E'dge, element index, field name
    int mask_templ{-1};
    char mask_elem{0};
    int mask_index{-1};
    std::string mask_field;
    // positions that lie inside this element (the faulted block) are printed as "<in-masked-block>": the library gives
    // synthesized expressions (the default "true" guard of an edge without guard label, ...) the position of whatever
    // was lexed last, which legitimately moves when the faulted block's text changes
    std::string mask_path;
    // for declaration-block faults: only the declarations preceding the faulted one are dumped
    int mask_decl_templ{-2};  // -1 = globals, >=0 template index, -2 = off
    int keep_syms{0}, keep_vars{0}, keep_funs{0};
    // for a faulted *local* declaration block: how much of the global declarations textually precedes it (-1 = all of
    // them; variables declared in the <system> block follow every template)
    int gkeep_syms{-1}, gkeep_vars{-1}, gkeep_funs{-1};
};

/** canonical dump of the whole document; never uses expression_t::str() */
std::string dump_document(UTAP::Document& doc, const DumpOpts& = {});
/** canonical dump of one expression */
std::string dump_expr(UTAP::Document& doc, const UTAP::expression_t& e, const DumpOpts&, bool root_pos);
/** diagnostics only */
std::string dump_diagnostics(UTAP::Document& doc, const DumpOpts&);

/** integer literals >= 100000 occurring in the expression (the generator's tags), also inside the types of symbols of `frame` */
void collect_tags(const UTAP::expression_t& e, std::set<int>& tags);
void collect_tags(const UTAP::type_t& t, std::set<int>& tags, int depth = 0, bool through_named_types = true);
void collect_tags(const UTAP::frame_t& f, std::set<int>& tags, bool through_named_types = true);

/** structural summary used by the mirror / twin / writer oracles (names, endpoints, flags, tag sets) */
std::string summarize_document(UTAP::Document& doc);

/** C08: returns "" when all invariants hold, else a description of the first broken clause */
std::string check_c08(UTAP::Document& doc, bool returned_normally_without_errors);

/** C06a: every diagnostic's position is well formed against an independent DOM of the delivered bytes.
 *  xml == false: plain text input (path must be empty, lines are the input's lines). */
std::string check_c06a(UTAP::Document& doc, const std::string& delivered, bool xml);

/** C06 for a block / query parse on an existing Document (plain text handed in with an XPath): every diagnostic *added by the
 *  call* carries exactly that path, a line inside the text and columns inside that line, start not after end. */
std::string check_c06_block(UTAP::Document& doc, size_t errors_before, size_t warnings_before, const std::string& text,
                            const std::string& xpath, uint32_t clock_before, uint32_t clock_after);

struct DiagView
{
    bool error;
    std::string msg, ctx, path;
    unsigned sline, scol, eline, ecol;
    bool unknown;
    uint32_t abs_start{0}, abs_end{0};  // absolute positions (the process-wide position clock)
};
std::vector<DiagView> view_diagnostics(UTAP::Document& doc);

}  // namespace sim
