import sys,json
full = len(sys.argv)>1
for l in sys.stdin:
    try: j=json.loads(l)
    except Exception: print(l.rstrip()); continue
    if j['type']=='violation': print(j['status'],j['property'],j['class'],'|',j['signature'],'\n   ',j['detail'][:900],'\n    replay',j['replay']); print()
    elif j['type']=='summary':
        print({k:v for k,v in j.items() if k not in('counters','samples')})
        if full:
            for k,v in j['counters'].items(): print('  ',k,v)
    else: print(j)
