#!/bin/bash
# Builds libutap from the CURRENT working tree of $VERIF_REPO (default /repo) and the simulator
# against it. Output is cached under /verif/build, keyed by the content of the inputs.
#   build.sh            -> builds plain + asan variants, prints the bin directory on the last line
#   build.sh plain|asan -> only that variant
# Offline: needs g++, flex, bison, libxml2 (xml2-config) only.
set -euo pipefail
V="$(cd "$(dirname "$0")" && pwd)"
REPO="${VERIF_REPO:-/repo}"
WHAT="${1:-all}"
B="${VERIF_BUILD_DIR:-$V/build}"
JOBS="${VERIF_JOBS:-16}"
GUARD="-DUTAP_VERIF"
mkdir -p "$B"

# the system libxml2, as the repository's own CMake build uses (LIBXML2_INCLUDE_DIR=/usr/include/libxml2); a
# conda/pyenv xml2-config earlier on PATH would pair foreign headers with the system library
XML2CFG=/usr/bin/xml2-config
[ -x "$XML2CFG" ] || XML2CFG=xml2-config
XML_CFLAGS="$($XML2CFG --cflags)"
XML_LIBS="$($XML2CFG --libs)"

libkey=$( (cd "$REPO" && cat src/*.cpp src/*.h src/*.hpp src/*.y src/*.l include/utap/*; echo "$GUARD v4 $XML_CFLAGS") | sha256sum | cut -c1-16)
simkey=$( (cat "$V"/sim/*.cpp "$V"/sim/*.h "$V"/build.sh; echo "$libkey") | sha256sum | cut -c1-16)
LIB="$B/lib-$libkey"
BIN="$B/bin-$simkey"

flags_for() {
    case "$1" in
        plain) echo "-O2 -g1 -DNDEBUG" ;;
        asan)  echo "-O1 -g1 -DNDEBUG -fsanitize=address,undefined -fno-sanitize-recover=undefined -fno-omit-frame-pointer" ;;
    esac
}

build_lib() {
    local var="$1" out="$LIB/$1"
    [ -f "$out/libutap.a" ] && return 0
    local tmp="$out.tmp.$$"
    rm -rf "$tmp"; mkdir -p "$tmp/gen/include" "$tmp/obj"
    flex --outfile="$tmp/gen/lexer.cc" -Putap_ "$REPO/src/lexer.l"
    bison -putap_ -bparser "$REPO/src/parser.y" --output="$tmp/gen/parser.cpp" --defines="$tmp/gen/include/parser.hpp" 2>"$tmp/bison.log" || { cat "$tmp/bison.log" >&2; exit 3; }
    local F; F="$(flags_for "$var")"
    local INC="-I$REPO/include -I$REPO/src -I$tmp/gen/include -I$tmp/gen $XML_CFLAGS"
    {
        for f in "$REPO"/src/*.cpp; do
            echo "g++ -std=c++17 $F $GUARD -w $INC -c $f -o $tmp/obj/$(basename "$f" .cpp).o"
        done
        extra=""
        [ "$var" = asan ] && extra="--param asan-stack=0"
        echo "g++ -std=c++17 $F $extra $GUARD -w $INC -c $tmp/gen/parser.cpp -o $tmp/obj/parser_gen.o"
    } > "$tmp/cmds"
    if ! xargs -P "$JOBS" -I{} sh -c "{}" < "$tmp/cmds" 2> "$tmp/compile.log"; then
        cat "$tmp/compile.log" >&2
        echo "BUILD-FAILED libutap ($var)" >&2
        exit 3
    fi
    ar rcs "$tmp/libutap.a" "$tmp"/obj/*.o
    rm -rf "$tmp/obj"
    rm -rf "$out"; mv "$tmp" "$out"
}

build_sim() {
    local var="$1" out="$BIN/utapsim.$1"
    [ -x "$out" ] && return 0
    local tmp="$BIN/obj-$var.$$"
    mkdir -p "$tmp"
    local F; F="$(flags_for "$var")"
    local INC="-I$REPO/include -I$REPO/src -I$LIB/$var/gen/include $XML_CFLAGS -I$V/sim"
    for f in "$V"/sim/*.cpp; do
        echo "g++ -std=c++17 $F $GUARD -Wall -Wno-unused-function -Wno-sign-compare $INC -DSIM_ASAN=$([ "$var" = asan ] && echo 1 || echo 0) -c $f -o $tmp/$(basename "$f" .cpp).o"
    done > "$tmp/cmds"
    if ! xargs -P "$JOBS" -I{} sh -c "{}" < "$tmp/cmds" 2> "$tmp/compile.log"; then
        cat "$tmp/compile.log" >&2
        echo "BUILD-FAILED utapsim ($var)" >&2
        exit 3
    fi
    g++ $F -o "$out.tmp" "$tmp"/*.o "$LIB/$var/libutap.a" $XML_LIBS -ldl
    mv "$out.tmp" "$out"
    rm -rf "$tmp"
}

# prune old caches (keep the 20 most recent of each kind, and whatever was used in the last 30 minutes: another
# check may be running from it) - disk is limited
prune() {
    ls -dt "$B"/$1-* 2>/dev/null | tail -n +21 | while read -r d; do
        if [ -n "$(find "$d" -maxdepth 0 -mmin +30 2>/dev/null)" ]; then rm -rf "$d"; fi
    done || true
}

(
    flock 9
    mkdir -p "$LIB" "$BIN"
    touch "$LIB" "$BIN"
    case "$WHAT" in
        all)
            build_lib plain & p1=$!
            build_lib asan & p2=$!
            wait $p1; wait $p2
            build_sim plain & p1=$!
            build_sim asan & p2=$!
            wait $p1; wait $p2
            ;;
        plain|asan)
            build_lib "$WHAT"; build_sim "$WHAT" ;;
    esac
    prune lib; prune bin
) 9>"$B/.lock"
echo "$BIN"
